//go:build verif

package main

import (
	"fmt"
	"go/ast"
	"go/parser"
	"go/token"
	"os"
	"path/filepath"
	"sort"
	"strings"

	"github.com/semihalev/sdns/server"
)

// Shape facts read from the source tree ($VERIF_REPO) with go/ast: which
// struct fields the release / reset functions write. They are the
// regenerated tie between "release scrubs everything the request owned" in
// the Lean model and the code.

type pkgAST struct {
	files []*ast.File
}

func repoDir() string {
	if d := os.Getenv("VERIF_REPO"); d != "" {
		return d
	}
	return "/repo"
}

func parseDir(rel string) *pkgAST {
	fset := token.NewFileSet()
	p := &pkgAST{}
	matches, _ := filepath.Glob(filepath.Join(repoDir(), rel, "*.go"))
	for _, m := range matches {
		if len(m) > 8 && m[len(m)-8:] == "_test.go" {
			continue
		}
		f, err := parser.ParseFile(fset, m, nil, 0)
		if err == nil {
			p.files = append(p.files, f)
		}
	}
	return p
}

func (p *pkgAST) structFields(name string) []string {
	var out []string
	for _, f := range p.files {
		ast.Inspect(f, func(n ast.Node) bool {
			ts, ok := n.(*ast.TypeSpec)
			if !ok || ts.Name.Name != name {
				return true
			}
			st, ok := ts.Type.(*ast.StructType)
			if !ok {
				return true
			}
			for _, fl := range st.Fields.List {
				if len(fl.Names) == 0 { // embedded
					switch t := fl.Type.(type) {
					case *ast.Ident:
						out = append(out, t.Name)
					case *ast.SelectorExpr:
						out = append(out, t.Sel.Name)
					case *ast.StarExpr:
						if id, ok := t.X.(*ast.Ident); ok {
							out = append(out, id.Name)
						}
					}
				}
				for _, n := range fl.Names {
					if n.Name != "_" {
						out = append(out, n.Name)
					}
				}
			}
			return false
		})
	}
	return out
}

func recvTypeName(fd *ast.FuncDecl) string {
	if fd.Recv == nil || len(fd.Recv.List) == 0 {
		return ""
	}
	t := fd.Recv.List[0].Type
	if s, ok := t.(*ast.StarExpr); ok {
		t = s.X
	}
	if ix, ok := t.(*ast.IndexExpr); ok {
		t = ix.X
	}
	if id, ok := t.(*ast.Ident); ok {
		return id.Name
	}
	return ""
}

func (p *pkgAST) method(recv, name string) *ast.FuncDecl {
	for _, f := range p.files {
		for _, d := range f.Decls {
			if fd, ok := d.(*ast.FuncDecl); ok && fd.Name.Name == name && recvTypeName(fd) == recv && fd.Body != nil {
				return fd
			}
		}
	}
	return nil
}

func (p *pkgAST) function(name string) *ast.FuncDecl { return p.method("", name) }

func recvName(fd *ast.FuncDecl) string {
	if fd.Recv == nil || len(fd.Recv.List) == 0 || len(fd.Recv.List[0].Names) == 0 {
		return ""
	}
	return fd.Recv.List[0].Names[0].Name
}

// rootField: for an lvalue such as v.F, v.F.G, v.F[i], v.F[a:b] return F when
// the innermost base is the identifier v.
func rootField(e ast.Expr, v string) (string, bool) {
	for {
		switch x := e.(type) {
		case *ast.IndexExpr:
			e = x.X
		case *ast.SliceExpr:
			e = x.X
		case *ast.ParenExpr:
			e = x.X
		case *ast.StarExpr:
			e = x.X
		case *ast.SelectorExpr:
			if id, ok := x.X.(*ast.Ident); ok && id.Name == v {
				return x.Sel.Name, true
			}
			e = x.X
		default:
			return "", false
		}
	}
}

// written collects the fields of variable v (of type typ) that body writes:
// assignment / inc-dec targets, copy() destinations, &v.F, method calls on a
// field (v.F.M(...)), and — transitively, depth-limited — whatever methods
// of typ called on v write.
func (p *pkgAST) written(body ast.Node, v, typ string, depth int, acc map[string]bool) {
	if body == nil || v == "" {
		return
	}
	ast.Inspect(body, func(n ast.Node) bool {
		switch x := n.(type) {
		case *ast.AssignStmt:
			for _, l := range x.Lhs {
				if f, ok := rootField(l, v); ok {
					acc[f] = true
				}
			}
		case *ast.IncDecStmt:
			if f, ok := rootField(x.X, v); ok {
				acc[f] = true
			}
		case *ast.UnaryExpr:
			if x.Op == token.AND {
				if f, ok := rootField(x.X, v); ok {
					acc[f] = true
				}
			}
		case *ast.CallExpr:
			if id, ok := x.Fun.(*ast.Ident); ok && id.Name == "copy" && len(x.Args) > 0 {
				if f, ok := rootField(x.Args[0], v); ok {
					acc[f] = true
				}
			}
			if sel, ok := x.Fun.(*ast.SelectorExpr); ok {
				if id, ok := sel.X.(*ast.Ident); ok && id.Name == v {
					// v.m(...): follow into the method of the same type
					if depth > 0 {
						if m := p.method(typ, sel.Sel.Name); m != nil {
							p.written(m.Body, recvName(m), typ, depth-1, acc)
						}
					}
				} else if f, ok := rootField(sel.X, v); ok {
					// v.F.M(...): the field is handed to its own reset
					acc[f] = true
				}
			}
			// helper(…, v) style calls that take the job: follow plain functions
			if id, ok := x.Fun.(*ast.Ident); ok && depth > 0 {
				for i, a := range x.Args {
					if aid, ok := a.(*ast.Ident); ok && aid.Name == v {
						if fn := p.function(id.Name); fn != nil && fn.Type.Params != nil {
							k := 0
							for _, pl := range fn.Type.Params.List {
								for _, pn := range pl.Names {
									if k == i {
										p.written(fn.Body, pn.Name, typ, depth-1, acc)
									}
									k++
								}
							}
						}
					}
				}
			}
		}
		return true
	})
}

func keys(m map[string]bool) []string {
	out := []string{}
	for k := range m {
		out = append(out, k)
	}
	sort.Strings(out)
	return out
}

func minus(all []string, sets ...map[string]bool) []string {
	out := []string{}
	for _, f := range all {
		in := false
		for _, s := range sets {
			if s[f] {
				in = true
			}
		}
		if !in {
			out = append(out, f)
		}
	}
	sort.Strings(out)
	return out
}

func inter(a, b map[string]bool) map[string]bool {
	out := map[string]bool{}
	for k := range a {
		if b[k] {
			out[k] = true
		}
	}
	return out
}

// localWritten: fields written through a local variable named v inside a
// method (e.g. `j` in udpEngine.reader, `job` in tcpEngine.serveConn).
func (p *pkgAST) localWritten(recv, method, v, typ string, depth int) map[string]bool {
	acc := map[string]bool{}
	if m := p.method(recv, method); m != nil {
		p.written(m.Body, v, typ, depth, acc)
	}
	return acc
}

// hasFullSliceExpr reports whether fn returns / passes a three-index slice
// expression whose max equals its high (`x[:off:off]`) or is the identifier
// named max (`buf[:0:need]`).
func hasFullSliceExpr(fd *ast.FuncDecl, wantMax string) bool {
	found := false
	if fd == nil {
		return false
	}
	ast.Inspect(fd.Body, func(n ast.Node) bool {
		se, ok := n.(*ast.SliceExpr)
		if !ok || !se.Slice3 || se.Max == nil {
			return true
		}
		mx, ok := se.Max.(*ast.Ident)
		if !ok {
			return true
		}
		if wantMax != "" {
			if mx.Name == wantMax {
				if lit, ok := se.High.(*ast.BasicLit); ok && lit.Value == "0" {
					found = true
				}
			}
		} else if hi, ok := se.High.(*ast.Ident); ok && hi.Name == mx.Name {
			found = true
		}
		return true
	})
	return found
}

// groupLookupShape: inside Resolver.groupLookup, `resp = resp.Copy()` sits
// under `if shared`, and `resp.Id = req.Id` follows.
func groupLookupShape(p *pkgAST) (copyWhenShared, idRewrite bool) {
	fd := p.method("Resolver", "groupLookup")
	if fd == nil {
		return
	}
	ast.Inspect(fd.Body, func(n ast.Node) bool {
		switch x := n.(type) {
		case *ast.IfStmt:
			if id, ok := x.Cond.(*ast.Ident); ok && id.Name == "shared" {
				ast.Inspect(x.Body, func(m ast.Node) bool {
					if as, ok := m.(*ast.AssignStmt); ok && len(as.Rhs) == 1 {
						if call, ok := as.Rhs[0].(*ast.CallExpr); ok {
							if sel, ok := call.Fun.(*ast.SelectorExpr); ok && sel.Sel.Name == "Copy" {
								if l, ok := as.Lhs[0].(*ast.Ident); ok && l.Name == "resp" {
									copyWhenShared = true
								}
							}
						}
					}
					return true
				})
			}
		case *ast.AssignStmt:
			if len(x.Lhs) == 1 && len(x.Rhs) == 1 {
				l, lok := x.Lhs[0].(*ast.SelectorExpr)
				r, rok := x.Rhs[0].(*ast.SelectorExpr)
				if lok && rok && l.Sel.Name == "Id" && r.Sel.Name == "Id" {
					li, _ := l.X.(*ast.Ident)
					ri, _ := r.X.(*ast.Ident)
					if li != nil && ri != nil && li.Name == "resp" && ri.Name == "req" {
						idRewrite = true
					}
				}
			}
		}
		return true
	})
	return
}

// deferredWipe inspects the deferred closures of fd: does one of them, at its
// top level (not under an if), assign the whole struct `*v = T{}`? It also
// returns the fields of v assigned at the top level of the deferred closures.
func deferredWipe(fd *ast.FuncDecl, v, typ string) (whole bool, assigned map[string]bool) {
	assigned = map[string]bool{}
	ast.Inspect(fd.Body, func(n ast.Node) bool {
		d, ok := n.(*ast.DeferStmt)
		if !ok {
			return true
		}
		fl, ok := d.Call.Fun.(*ast.FuncLit)
		if !ok {
			return true
		}
		for _, st := range fl.Body.List {
			as, ok := st.(*ast.AssignStmt)
			if !ok {
				continue
			}
			for i, l := range as.Lhs {
				if star, ok := l.(*ast.StarExpr); ok {
					if id, ok := star.X.(*ast.Ident); ok && id.Name == v && i < len(as.Rhs) {
						if cl, ok := as.Rhs[i].(*ast.CompositeLit); ok && len(cl.Elts) == 0 {
							if t, ok := cl.Type.(*ast.Ident); ok && t.Name == typ {
								whole = true
							}
						}
					}
				}
				if f, ok := rootField(l, v); ok {
					assigned[f] = true
				}
			}
		}
		return true
	})
	return
}

func facts() map[string]any {
	srv := parseDir("server")
	mw := parseDir("middleware")
	res := parseDir("middleware/resolver")
	wr := parseDir("internal/wire")

	out := map[string]any{}

	// --- udpJob
	udpFields := srv.structFields("udpJob")
	rel := map[string]bool{}
	if m := srv.method("udpJob", "release"); m != nil {
		srv.written(m.Body, recvName(m), "udpJob", 3, rel)
	}
	portable := srv.localWritten("udpEngine", "reader", "j", "udpJob", 3)
	batch := srv.localWritten("udpBatchReader", "finishRecv", "j", "udpJob", 3)
	take := srv.localWritten("udpEngine", "take", "j", "udpJob", 0)
	serve := srv.localWritten("udpEngine", "serve", "j", "udpJob", 0)
	out["udp_fields"] = udpFields
	out["udp_release_resets"] = keys(rel)
	out["udp_portable_reader_sets"] = keys(portable)
	out["udp_batch_reader_sets"] = keys(batch)
	// fields no release and not every reader path rewrites: must stay inside the allow-list
	out["udp_unowned"] = minus(udpFields, rel, inter(portable, batch), take, serve)

	// --- tcpJob: the connection loop rewrites the per-frame fields
	tcpFields := srv.structFields("tcpJob")
	frame := srv.localWritten("tcpEngine", "serveConn", "job", "tcpJob", 0)
	acq := srv.localWritten("tcpEngine", "acquire", "j", "tcpJob", 0)
	out["tcp_fields"] = tcpFields
	out["tcp_frame_sets"] = keys(frame)
	out["tcp_unowned"] = minus(tcpFields, frame, acq)

	// --- tcpStream.reset
	strFields := srv.structFields("tcpStream")
	sreset := map[string]bool{}
	if m := srv.method("tcpStream", "reset"); m != nil {
		srv.written(m.Body, recvName(m), "tcpStream", 2, sreset)
	}
	out["stream_fields"] = strFields
	out["stream_reset_sets"] = keys(sreset)
	out["stream_unreset"] = minus(strFields, sreset)

	// --- middleware.responseWriter.Reset
	rwFields := mw.structFields("responseWriter")
	rwReset := map[string]bool{}
	if m := mw.method("responseWriter", "Reset"); m != nil {
		mw.written(m.Body, recvName(m), "responseWriter", 2, rwReset)
	}
	out["rw_fields"] = rwFields
	out["rw_reset_sets"] = keys(rwReset)
	out["rw_unreset"] = minus(rwFields, rwReset)

	// --- Chain.Reset / ResetWire / Finish
	chFields := mw.structFields("Chain")
	for _, fn := range []string{"Reset", "ResetWire", "Finish"} {
		acc := map[string]bool{}
		if m := mw.method("Chain", fn); m != nil {
			mw.written(m.Body, recvName(m), "Chain", 3, acc)
		}
		tag := map[string]string{"Reset": "reset", "ResetWire": "resetwire", "Finish": "finish"}[fn]
		out["chain_"+tag+"_touches"] = keys(acc)
		if fn != "Finish" {
			out["chain_"+tag+"_untouched"] = minus(chFields, acc)
		}
	}
	out["chain_fields"] = chFields
	// rebindWriter really resets the base writer
	rebindResets := false
	if m := mw.method("Chain", "rebindWriter"); m != nil {
		ast.Inspect(m.Body, func(n ast.Node) bool {
			if c, ok := n.(*ast.CallExpr); ok {
				if s, ok := c.Fun.(*ast.SelectorExpr); ok && s.Sel.Name == "Reset" {
					rebindResets = true
				}
			}
			return true
		})
	}
	out["chain_rebind_resets_writer"] = rebindResets

	// --- edns: the deferred cleanup of serveWire / ServeDNS must wipe the whole writer
	// (`*rw = ResponseWriter{}`), unconditionally; otherwise list the fields it leaves
	ed := parseDir("middleware/edns")
	edFields := ed.structFields("ResponseWriter")
	for _, fn := range []string{"serveWire", "ServeDNS"} {
		left := edFields
		if m := ed.method("EDNS", fn); m != nil {
			whole, assigned := deferredWipe(m, "rw", "ResponseWriter")
			if whole {
				left = []string{}
			} else {
				left = minus(edFields, assigned)
			}
		}
		out["edns_"+strings.ToLower(fn)+"_slot_unreset"] = left
	}

	// --- chain pool: one NewChain, one PutChain per decoded entry
	countCalls := func(fd *ast.FuncDecl, name string) int {
		n := 0
		if fd == nil {
			return -1
		}
		ast.Inspect(fd.Body, func(x ast.Node) bool {
			if c, ok := x.(*ast.CallExpr); ok {
				if sel, ok := c.Fun.(*ast.SelectorExpr); ok && sel.Sel.Name == name {
					n++
				}
			}
			return true
		})
		return n
	}
	out["servemsgby_newchain_calls"] = countCalls(srv.method("Server", "serveMsgBy"), "NewChain")
	out["servemsgby_putchain_calls"] = countCalls(srv.method("Server", "serveMsgBy"), "PutChain")
	out["queryer_newchain_calls"] = countCalls(mw.method("pipelineQueryer", "Query"), "NewChain")
	out["queryer_putchain_calls"] = countCalls(mw.method("pipelineQueryer", "Query"), "PutChain")

	for _, fn := range []string{"ServeRaw", "ServeRawInline", "ServeRawReplay"} {
		out["carrier_reset_in_"+strings.ToLower(fn)] = countCalls(srv.method("Server", fn), "reset")
	}

	// --- replies that a transport may keep: built in storage of their own
	// CancelWithRcode: the reply is `new(dns.Msg)`, never the address of a chain field
	cwr := mw.method("Chain", "CancelWithRcode")
	cwrNew, cwrChainAddr := false, false
	if cwr != nil {
		ast.Inspect(cwr.Body, func(x ast.Node) bool {
			switch v := x.(type) {
			case *ast.CallExpr:
				if id, ok := v.Fun.(*ast.Ident); ok && id.Name == "new" {
					cwrNew = true
				}
			case *ast.UnaryExpr:
				if v.Op == token.AND {
					if _, ok := rootField(v.X, recvName(cwr)); ok {
						cwrChainAddr = true
					}
				}
			}
			return true
		})
	}
	out["cancelwithrcode_allocates_reply"] = cwrNew && !cwrChainAddr
	// views.ServeDNS: every record appended to an answer list is a dns.Copy of the configured one
	vw := parseDir("middleware/views")
	copied := map[string]bool{}
	viewsShared := []string{}
	if m := vw.method("Views", "ServeDNS"); m != nil {
		ast.Inspect(m.Body, func(x ast.Node) bool {
			if as, ok := x.(*ast.AssignStmt); ok && len(as.Lhs) == 1 && len(as.Rhs) == 1 {
				if c, ok := as.Rhs[0].(*ast.CallExpr); ok {
					if sel, ok := c.Fun.(*ast.SelectorExpr); ok && sel.Sel.Name == "Copy" {
						if id, ok := as.Lhs[0].(*ast.Ident); ok {
							copied[id.Name] = true
						}
					}
				}
			}
			return true
		})
		ast.Inspect(m.Body, func(x ast.Node) bool {
			if c, ok := x.(*ast.CallExpr); ok {
				if id, ok := c.Fun.(*ast.Ident); ok && id.Name == "append" && len(c.Args) >= 2 {
					if dst, ok := c.Args[0].(*ast.Ident); ok && (dst.Name == "exact" || dst.Name == "wild") {
						for _, a := range c.Args[1:] {
							if aid, ok := a.(*ast.Ident); !ok || !copied[aid.Name] {
								viewsShared = append(viewsShared, fmt.Sprint(dst.Name))
							}
						}
					}
					// wild = append(wild[:0], cp)
					if sl, ok := c.Args[0].(*ast.SliceExpr); ok {
						if dst, ok := sl.X.(*ast.Ident); ok && dst.Name == "wild" {
							for _, a := range c.Args[1:] {
								if aid, ok := a.(*ast.Ident); !ok || !copied[aid.Name] {
									viewsShared = append(viewsShared, "wild")
								}
							}
						}
					}
				}
			}
			return true
		})
	} else {
		viewsShared = append(viewsShared, "ServeDNS-not-found")
	}
	out["views_answers_not_copied"] = viewsShared

	// --- send state: a batch reader's burst slot lies past the workers' range (`e.workers + idx`),
	// and the engine allocates workers+len(pcs) senders
	slotPast, sendersSized := false, false
	if fn := srv.function("newUDPBatchReader"); fn != nil {
		ast.Inspect(fn.Body, func(x ast.Node) bool {
			if as, ok := x.(*ast.AssignStmt); ok && len(as.Lhs) == 1 && len(as.Rhs) == 1 {
				if l, ok := as.Lhs[0].(*ast.SelectorExpr); ok && l.Sel.Name == "slot" {
					if b, ok := as.Rhs[0].(*ast.BinaryExpr); ok && b.Op == token.ADD {
						if xs, ok := b.X.(*ast.SelectorExpr); ok && xs.Sel.Name == "workers" {
							slotPast = true
						}
					}
				}
			}
			return true
		})
	}
	if fn := srv.function("newUDPEngine"); fn != nil {
		ast.Inspect(fn.Body, func(x ast.Node) bool {
			if c, ok := x.(*ast.CallExpr); ok {
				if id, ok := c.Fun.(*ast.Ident); ok && id.Name == "make" && len(c.Args) == 2 {
					if at, ok := c.Args[0].(*ast.ArrayType); ok {
						if el, ok := at.Elt.(*ast.Ident); ok && el.Name == "udpTXSender" {
							if b, ok := c.Args[1].(*ast.BinaryExpr); ok && b.Op == token.ADD {
								sendersSized = true
							}
						}
					}
				}
			}
			return true
		})
	}
	out["reader_sender_slot_past_workers"] = slotPast
	out["senders_sized_workers_plus_readers"] = sendersSized

	// --- upstream read buffers: no function both defers ReleaseBuf and calls it on a branch
	dc := parseDir("internal/dnsclient")
	doubleSites := []string{}
	for _, f := range dc.files {
		for _, d := range f.Decls {
			fd, ok := d.(*ast.FuncDecl)
			if !ok || fd.Body == nil {
				continue
			}
			deferred, plain := 0, 0
			ast.Inspect(fd.Body, func(x ast.Node) bool {
				switch v := x.(type) {
				case *ast.DeferStmt:
					if id, ok := v.Call.Fun.(*ast.Ident); ok && id.Name == "ReleaseBuf" {
						deferred++
						return false
					}
				case *ast.CallExpr:
					if id, ok := v.Fun.(*ast.Ident); ok && id.Name == "ReleaseBuf" {
						plain++
					}
				}
				return true
			})
			if deferred > 0 && plain > 0 {
				doubleSites = append(doubleSites, fd.Name.Name)
			}
		}
	}
	out["dnsclient_defer_and_branch_release"] = doubleSites

	// --- capacity pinning shapes
	out["beginwire_pins_capacity"] = hasFullSliceExpr(mw.method("responseWriter", "BeginWire"), "need")
	out["trypack_pins_capacity"] = hasFullSliceExpr(wr.function("TryPack"), "")

	// --- shared lookup shape
	c, i := groupLookupShape(res)
	out["grouplookup_copies_when_shared"] = c
	out["grouplookup_rewrites_id"] = i

	// --- buffer classes of the compiled code
	for k, v := range server.VerifC10Sizes() {
		out["size_"+k] = v
	}
	return out
}
