//go:build verif

package main

import (
	"bytes"
	"encoding/binary"
	"errors"
	"fmt"
	"io"
	"net"
	"os"
	"strings"
	"time"

	"github.com/semihalev/sdns/internal/verif/vlib"
	"github.com/semihalev/sdns/server"
)

// scriptConn is a net.Conn whose reads deliver a scripted chunking of the
// client's byte stream and whose writes are recorded (or fail on request).
type scriptConn struct {
	chunks [][]byte
	out    []byte
	writes int
	failAt int // 1-based index of the first write that fails; 0 = never
	port   int
	// stallAt: the 1-based write that times out after the peer accepted only `accepted`
	// bytes of it (a client that stopped reading); later writes succeed again.
	stallAt, accepted int
	stalled           bool
	late              []byte // everything written after the half-sent write
}

func (c *scriptConn) Read(p []byte) (int, error) {
	for len(c.chunks) > 0 && len(c.chunks[0]) == 0 {
		c.chunks = c.chunks[1:]
	}
	if len(c.chunks) == 0 {
		return 0, io.EOF
	}
	n := copy(p, c.chunks[0])
	c.chunks[0] = c.chunks[0][n:]
	return n, nil
}
func (c *scriptConn) Write(p []byte) (int, error) {
	c.writes++
	if c.failAt > 0 && c.writes >= c.failAt {
		return 0, errors.New("c10: scripted write failure")
	}
	if c.stallAt > 0 && c.writes == c.stallAt {
		k := min(c.accepted, len(p))
		c.out = append(c.out, p[:k]...)
		c.stalled = true
		return k, os.ErrDeadlineExceeded
	}
	if c.stalled {
		c.late = append(c.late, p...)
	}
	c.out = append(c.out, p...)
	return len(p), nil
}
func (c *scriptConn) Close() error                     { return nil }
func (c *scriptConn) LocalAddr() net.Addr              { return &net.TCPAddr{IP: net.IPv4(127, 0, 0, 1), Port: 53} }
func (c *scriptConn) RemoteAddr() net.Addr             { return &net.TCPAddr{IP: net.IPv4(127, 0, 0, 1), Port: 40000 + c.port} }
func (c *scriptConn) SetDeadline(time.Time) error      { return nil }
func (c *scriptConn) SetReadDeadline(time.Time) error  { return nil }
func (c *scriptConn) SetWriteDeadline(time.Time) error { return nil }

func chunked(stream []byte, spec string) [][]byte {
	var out [][]byte
	if spec != "-" {
		for _, s := range strings.Split(spec, ",") {
			n := vlib.Atoi(s)
			if n > len(stream) {
				n = len(stream)
			}
			out = append(out, append([]byte(nil), stream[:n]...))
			stream = stream[n:]
		}
	}
	return append(out, append([]byte(nil), stream...))
}

func fnv64(b []byte) uint64 {
	h := uint64(0xcbf29ce484222325)
	for _, x := range b {
		h ^= uint64(x)
		h *= 0x100000001b3
	}
	return h
}

// splitFrames cuts a byte stream into length-prefixed frames; rest is what
// does not form a whole frame.
func splitFrames(s []byte) (frames [][]byte, rest []byte) {
	for len(s) >= 2 {
		n := int(binary.BigEndian.Uint16(s))
		if len(s) < 2+n {
			break
		}
		frames = append(frames, s[2:2+n])
		s = s[2+n:]
	}
	return frames, s
}

// judgeStream is the property oracle for one connection: what the client
// received must be whole frames, each an acceptable reply to one of the
// frames it sent, at most one per query, in query order.
func judgeStream(in, out []byte, own func(sent, got []byte) bool, sig string) string {
	replies, rest := splitFrames(out)
	if len(rest) != 0 {
		return fail(sig+"/partial-frame", "the stream ends inside a frame: %d stray bytes after %d whole frames", len(rest), len(replies))
	}
	queries, _ := splitFrames(in)
	qi := 0
	for ri, r := range replies {
		matched := false
		for qi < len(queries) {
			q := queries[qi]
			qi++
			if own(q, r) {
				matched = true
				break
			}
		}
		if !matched {
			// is it a reply to an earlier query (order / duplicate) or nobody's?
			for _, q := range queries {
				if own(q, r) {
					return fail(sig+"/out-of-order-or-duplicate", "reply #%d answers a query that is not next in query order", ri+1)
				}
			}
			return fail(sig+"/foreign-bytes", "reply #%d (%d bytes) answers none of this connection's queries: %s", ri+1, len(r), vlib.Hex(r[:min(len(r), 48)]))
		}
	}
	return "ok"
}

var tcpB *server.VerifC10TCP // persistent engine whose storage is scribbled before every connection

func runConn(t *server.VerifC10TCP, stream []byte, spec string, failAt int) *scriptConn {
	c := &scriptConn{chunks: chunked(stream, spec), failAt: failAt, port: 1}
	t.Serve(c)
	return c
}

func execTCP(f []string) vlib.Res {
	switch f[1] {
	case "conn":
		pat := vlib.UnHex(f[2])[0]
		stream := vlib.UnHex(f[4])
		a := runConn(server.VerifC10NewTCP(scripted, nil, 8), stream, f[3], 0)
		if tcpB == nil {
			tcpB = server.VerifC10NewTCP(scripted, nil, 8)
		}
		tcpB.SeedDirty(pat)
		b := runConn(tcpB, stream, f[3], 0)
		impl := fmt.Sprintf("n=%d h=%016x", len(a.out), fnv64(a.out))
		or := judgeStream(stream, a.out, ownReply, "tcp")
		if or == "ok" && !bytes.Equal(a.out, b.out) {
			or = fail("tcp/residue", "the same connection on scribbled slabs/stream buffers produced different bytes: clean n=%d dirty n=%d", len(a.out), len(b.out))
		}
		if or == "ok" && !tcpB.Quiesced() {
			or = fail("tcp/slab-not-returned", "a token is missing after the connection ended")
		}
		return vlib.Res{Impl: impl, Oracle: or, Tags: "nt"}
	case "stall":
		// tcp stall <write#> <accepted> <stream>: the <write#>-th write of the connection times out after
		// <accepted> bytes; whatever the server does next, it must not put another byte on this stream
		stream := vlib.UnHex(f[4])
		c := &scriptConn{chunks: chunked(stream, "-"), stallAt: vlib.Atoi(f[2]), accepted: vlib.Atoi(f[3]), port: 1}
		server.VerifC10NewTCP(scripted, nil, 8).Serve(c)
		or := "ok"
		if len(c.late) > 0 {
			or = fail("tcp/stall/write-after-half-sent-frame", "%d more bytes were written after a write that timed out %d bytes in: the client's framing is shifted", len(c.late), c.accepted)
		}
		if or == "ok" {
			_, rest := splitFrames(c.out)
			or = judgeStream(stream, c.out[:len(c.out)-len(rest)], ownReply, "tcp/stall")
		}
		all := append(append([]byte(nil), c.out...), c.late...)
		return vlib.Res{Impl: fmt.Sprintf("n=%d h=%016x", len(all), fnv64(all)), Oracle: or, Tags: "nt,stall"}
	case "abort":
		// connection 1 dies on a failed write with replies still staged; connection 2
		// on the same engine (pooled stream, recycled slab) must see only its own replies
		s1, s2 := vlib.UnHex(f[3]), vlib.UnHex(f[4])
		t := server.VerifC10NewTCP(scripted, nil, 8)
		c1 := runConn(t, s1, "-", vlib.Atoi(f[2]))
		c2 := runConn(t, s2, "-", 0)
		// the dying connection may end inside a frame (its write failed); what did arrive whole is judged
		whole, rest := splitFrames(c1.out)
		_ = whole
		or := judgeStream(s1, c1.out[:len(c1.out)-len(rest)], ownReply, "tcp/abort/first")
		if or == "ok" {
			or = judgeStream(s2, c2.out, ownReply, "tcp/abort/second")
		}
		clean := runConn(server.VerifC10NewTCP(scripted, nil, 8), s2, "-", 0)
		if or == "ok" && !bytes.Equal(clean.out, c2.out) {
			or = fail("tcp/abort/second-differs", "after an aborted connection the next one received different bytes: n=%d vs %d", len(c2.out), len(clean.out))
		}
		return vlib.Res{Impl: fmt.Sprintf("n=%d h=%016x", len(c2.out), fnv64(c2.out)), Oracle: or, Tags: "nt"}
	}
	return vlib.Res{Impl: "bad-op"}
}
