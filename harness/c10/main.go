//go:build verif

// Correspondence + stress driver for C10 (replies reach only their own
// client and carry only their own bytes).
//
//	udp  …   single-stepped REAL udpEngine/udpJob/udpBatchReader over loopback sockets,
//	         scripted handler, twin rig on scribbled slabs (model-compared + oracle)
//	tcp  …   REAL tcpEngine.serveConn/tcpStream/tcpJob on a scripted net.Conn (model-compared + oracle)
//	lease …  REAL responseWriter.BeginWire / wire.TryPack / LeaseWire capacity pinning
//	chain …  REAL Chain.Reset / ResetWire / Finish residue
//	share …  REAL Resolver.groupLookup with concurrent callers (L3 authority)
//	usrv/tsrv/stress … the real Server behind the rigs / behind real sockets (oracle only)
package main

import (
	"fmt"
	"os"
	"strings"

	"github.com/semihalev/sdns/internal/verif/vlib"
	"github.com/semihalev/sdns/server"
)

func exec(op string) vlib.Res {
	f := strings.Fields(op)
	if len(f) < 2 {
		return vlib.Res{Impl: "bad-op"}
	}
	switch f[0] {
	case "udp":
		return execUDP(f)
	case "tcp":
		return execTCP(f)
	case "lease":
		return execLease(f)
	case "chain":
		return execChain(f)
	case "upool":
		return execUPool(f)
	case "retain":
		return execRetain(f)
	case "carrier":
		ops := strings.Split(f[2], ",")
		return vlib.Res{Impl: strings.Join(server.VerifC10CarrierScript(ops), ","), Oracle: "-", Tags: "nt"}
	case "fw":
		return execForwarder(f)
	case "fo":
		return execFailover(f)
	case "doq":
		return execDoQ(f)
	case "pool":
		return execPool(f)
	case "share":
		return execShare(f)
	case "usrv":
		return execUSrv(f)
	case "tsrv":
		return execTSrv(f)
	case "stress":
		return execStress(f)
	}
	return vlib.Res{Impl: "bad-op"}
}

func fail(sig, format string, a ...any) string {
	return "FAIL sig=" + sig + " " + fmt.Sprintf(format, a...)
}

func main() {
	// the recovery middleware prints every recovered panic with its stack to
	// os.Stderr; scripted panics are part of the workload
	if os.Getenv("VERIF_LOG") == "" {
		if f, err := os.OpenFile(os.DevNull, os.O_WRONLY, 0); err == nil {
			os.Stderr = f
		}
	}
	vlib.Main(&vlib.Driver{Facts: facts, Exec: exec, Gen: gen})
}
