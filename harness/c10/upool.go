//go:build verif

// The upstream read buffers of internal/dnsclient (pooled per size class): the
// REAL Conn.ReadMsg over a pipe (stream framing) or a loopback datagram
// socket, fed runts, garbage and good messages; afterwards several buffers of
// every class are held at once — two holders must never share one array.
package main

import (
	"encoding/binary"
	"fmt"
	"net"
	"strings"
	"time"
	"unsafe"

	"github.com/miekg/dns"
	"github.com/semihalev/sdns/internal/dnsclient"
	"github.com/semihalev/sdns/internal/verif/vlib"
)

func upoolPayload(kind byte, n int) []byte {
	if kind == 'v' { // a valid message
		m := new(dns.Msg)
		m.SetQuestion("up.c10.", dns.TypeA)
		m.Response = true
		b, _ := m.Pack()
		return b
	}
	b := make([]byte, n) // a runt (n < 12) or garbage of n bytes
	for i := range b {
		b[i] = 0xC3
	}
	return b
}

func execUPool(f []string) vlib.Res {
	// upool read <t|u><kind><n>,…   t = stream (length-prefixed), u = datagram; kind r = raw bytes, v = valid message
	var out []string
	for _, tok := range strings.Split(f[2], ",") {
		payload := upoolPayload(tok[1], vlib.Atoi(tok[2:]))
		var co *dnsclient.Conn
		var closeAll func()
		if tok[0] == 't' {
			a, b := net.Pipe()
			go func() {
				_, _ = b.Write(append(binary.BigEndian.AppendUint16(nil, uint16(len(payload))), payload...))
			}()
			co = &dnsclient.Conn{Conn: a}
			closeAll = func() { a.Close(); b.Close() }
		} else {
			srv, err := net.ListenUDP("udp4", &net.UDPAddr{IP: net.IPv4(127, 0, 0, 1)})
			if err != nil {
				return vlib.Res{Impl: "socket-error"}
			}
			cl, err := net.DialUDP("udp4", nil, srv.LocalAddr().(*net.UDPAddr))
			if err != nil {
				return vlib.Res{Impl: "socket-error"}
			}
			_, _ = srv.WriteToUDP(payload, cl.LocalAddr().(*net.UDPAddr))
			co = &dnsclient.Conn{Conn: cl, UDPSize: 1232}
			closeAll = func() { cl.Close(); srv.Close() }
		}
		_ = co.SetReadDeadline(time.Now().Add(2 * time.Second))
		_, err := co.ReadMsg()
		closeAll()
		if err != nil {
			out = append(out, "err")
		} else {
			out = append(out, "ok")
		}
	}
	// hold four buffers of every class at once
	or := "ok"
	distinct := true
	for _, size := range []uint16{12, 512, 1232, 4096, 65535} {
		held := map[uintptr]int{}
		var bufs [][]byte
		for k := 0; k < 4; k++ {
			b := dnsclient.AcquireBuf(size)
			p := uintptr(unsafe.Pointer(unsafe.SliceData(b)))
			if j, dup := held[p]; dup {
				distinct = false
				if or == "ok" {
					or = fail("upool/two-holders-one-buffer", "holders %d and %d of the %d-byte class were handed the same array: two overlapping upstream reads would write into each other", j, k, cap(b))
				}
			}
			held[p] = k
			bufs = append(bufs, b)
		}
		for _, b := range bufs {
			dnsclient.ReleaseBuf(b)
		}
	}
	return vlib.Res{Impl: fmt.Sprintf("%s distinct=%s", strings.Join(out, ","), vlib.B(distinct)), Oracle: or, Tags: "nt,upool"}
}
