//go:build verif

package main

import (
	"bytes"
	"os"
	"net/http"
	"net/http/httptest"
	"sort"
	"encoding/binary"
	"fmt"
	"io"
	"net"
	"strings"
	"sync"
	"sync/atomic"
	"time"

	"github.com/miekg/dns"
	"github.com/semihalev/sdns/config"
	"github.com/semihalev/sdns/internal/verif/srvh"
	"github.com/semihalev/sdns/middleware/cache"
	"github.com/semihalev/sdns/internal/verif/vlib"
	"github.com/semihalev/sdns/server"
)

// ---- answers that encode the question -----------------------------------------
//
// Query names are  <tag>-<beh>.z.c10.  ; the stub's answer is a function of the
// name alone, so the judge can compute what every reply must look like from
// what the client sent.
//
//	beh: ok | dN (answer after N ms) | nr (write nothing) | pn (handler panics)

func behOf(qname string) string {
	first := strings.SplitN(strings.ToLower(qname), ".", 2)[0]
	i := strings.LastIndexByte(first, '-')
	if i < 0 {
		return "ok"
	}
	return first[i+1:]
}

func txtFor(qname string) []string {
	n := strings.ToLower(qname)
	if b := behOf(n); len(b) >= 2 && b[0] == 'b' {
		// "bNNNN": exactly NNNN pad characters, in strings of at most 255 (sized replies for stream bursts)
		pad := vlib.Atoi(b[1:])
		out := []string{"q=" + n}
		for pad > 0 {
			k := min(pad, 255)
			out = append(out, strings.Repeat("b", k))
			pad -= k
		}
		return out
	}
	return []string{"q=" + n, strings.Repeat("p", 1+int(fnv64([]byte(n))%180))}
}

// bigName: a query name whose first label is 50 octets long and ends in
// "-a<n>": the stub answers it with n A records under that owner — a reply
// whose uncompressed form is far larger than its packed form (12+~70n vs ~16n).
func bigName(c, seq, n int) string {
	l := fmt.Sprintf("c%d-s%d-", c, seq)
	tail := fmt.Sprintf("-a%d", n)
	return l + strings.Repeat("x", 50-len(l)-len(tail)) + tail + ".z.c10."
}

func bigAnswers(qname string, n int) []dns.RR {
	h := byte(fnv64([]byte(strings.ToLower(qname))) % 250)
	out := make([]dns.RR, n)
	for i := range out {
		out[i] = &dns.A{Hdr: dns.RR_Header{Name: qname, Rrtype: dns.TypeA, Class: dns.ClassINET, Ttl: 300}, A: net.IPv4(10, byte(i), h, 7)}
	}
	return out
}

func bigCount(qname string) (int, bool) {
	b := behOf(qname)
	if len(b) >= 2 && b[0] == 'a' {
		n := 0
		for _, c := range b[1:] {
			if c < '0' || c > '9' {
				return 0, false
			}
			n = n*10 + int(c-'0')
		}
		return n, true
	}
	return 0, false
}

func stubRespond(req *dns.Msg) *dns.Msg {
	q := req.Question[0]
	if behOf(q.Name) == "nr" {
		return nil
	}
	m := new(dns.Msg)
	m.SetReply(req)
	m.RecursionAvailable = true
	if n, ok := bigCount(q.Name); ok {
		m.Compress = true
		m.Answer = bigAnswers(q.Name, n)
		return m
	}
	if beh := behOf(q.Name); strings.HasPrefix(beh, "v6") {
		// dns64: no AAAA here; the A side (asked by dns64's internal sub-query) decides
		soa, _ := dns.NewRR("z.c10. 60 IN SOA ns.z.c10. h.z.c10. 1 2 3 4 60")
		switch {
		case q.Qtype == dns.TypeA && beh == "v6ok":
			m.Answer = []dns.RR{&dns.A{Hdr: dns.RR_Header{Name: q.Name, Rrtype: dns.TypeA, Class: dns.ClassINET, Ttl: 300}, A: net.IPv4(93, 184, 216, 34)}}
		case q.Qtype == dns.TypeA && beh == "v6nx":
			m.Rcode = dns.RcodeNameError
			m.Ns = []dns.RR{soa}
		case q.Qtype == dns.TypeA && beh == "v6sf":
			m.Rcode = dns.RcodeServerFailure
		default:
			m.Ns = []dns.RR{soa}
		}
		return m
	}
	if behOf(q.Name) == "cn" {
		// an alias: only the CNAME comes back; the cache chases the target itself
		m.Answer = []dns.RR{&dns.CNAME{Hdr: dns.RR_Header{Name: q.Name, Rrtype: dns.TypeCNAME, Class: dns.ClassINET, Ttl: 300}, Target: cnTarget(q.Name)}}
		return m
	}
	m.Answer = []dns.RR{&dns.TXT{Hdr: dns.RR_Header{Name: q.Name, Rrtype: dns.TypeTXT, Class: dns.ClassINET, Ttl: 300}, Txt: txtFor(q.Name)}}
	return m
}

func cnTarget(qname string) string {
	first := strings.SplitN(strings.ToLower(qname), ".", 2)[0]
	return "t-" + strings.TrimSuffix(first, "-cn") + "-ok.z.c10."
}

func stubDelay(req *dns.Msg) time.Duration {
	b := behOf(req.Question[0].Name)
	if len(b) >= 2 && b[0] == 'd' && b[1] >= '0' && b[1] <= '9' {
		return time.Duration(vlib.Atoi(b[1:])) * time.Millisecond
	}
	return 0
}

func stubPanic(req *dns.Msg) bool { return behOf(req.Question[0].Name) == "pn" }

func mkQuery(id uint16, name string, edns bool) []byte {
	m := new(dns.Msg)
	m.SetQuestion(name, dns.TypeTXT)
	m.Id = id
	if edns {
		m.SetEdns0(1232, false)
		if id%3 == 1 {
			// a client cookie that encodes who sent it; the reply's COOKIE option must start with exactly these 8 bytes
			o := m.IsEdns0()
			o.Option = append(o.Option, &dns.EDNS0_COOKIE{Code: dns.EDNS0COOKIE, Cookie: clientCookie(id)})
		}
		if id%7 == 3 && id%3 != 1 {
			// a COOKIE shorter than a client cookie, as the LAST option: nothing behind it in the packet
			o := m.IsEdns0()
			o.Option = append(o.Option, &dns.EDNS0_COOKIE{Code: dns.EDNS0COOKIE, Cookie: "c00c1e0a0b0c0d"[:2*(1+int(id)%7)]})
		} else if id%5 == 0 {
			// an EDNS option the wire-born parser does not admit: the packet takes the
			// decoded entry (pooled chain from Pipeline.chainPool, pooled edns writer)
			o := m.IsEdns0()
			o.Option = append(o.Option, &dns.EDNS0_LOCAL{Code: 65001, Data: []byte{byte(id), byte(id >> 8)}})
		}
	}
	b, _ := m.Pack()
	return b
}

func mkTyped(id uint16, name string, qt uint16) []byte {
	m := new(dns.Msg)
	m.SetQuestion(name, qt)
	m.Id = id
	m.SetEdns0(1232, false)
	b, _ := m.Pack()
	return b
}

func clientCookie(id uint16) string { return fmt.Sprintf("c00c1e%04x%04xaa", id, id^0x5a5a) }

// cookieOf returns the hex COOKIE option of a message's OPT ("" = none).
func cookieOf(m *dns.Msg) string {
	if o := m.IsEdns0(); o != nil {
		for _, x := range o.Option {
			if c, ok := x.(*dns.EDNS0_COOKIE); ok {
				return c.Cookie
			}
		}
	}
	return ""
}

// walkMsg is an independent wire walker: the offset one past the last record
// and the offsets of every TTL field.
func walkMsg(b []byte) (end int, ttls []int, ok bool) {
	if len(b) < 12 {
		return 0, nil, false
	}
	off := 12
	skipName := func() bool {
		for {
			if off >= len(b) {
				return false
			}
			c := int(b[off])
			switch {
			case c == 0:
				off++
				return true
			case c&0xC0 == 0xC0:
				off += 2
				return off <= len(b)
			case c&0xC0 != 0:
				return false
			default:
				off += 1 + c
			}
		}
	}
	qd := int(binary.BigEndian.Uint16(b[4:]))
	rr := int(binary.BigEndian.Uint16(b[6:])) + int(binary.BigEndian.Uint16(b[8:])) + int(binary.BigEndian.Uint16(b[10:]))
	for i := 0; i < qd; i++ {
		if !skipName() || off+4 > len(b) {
			return 0, nil, false
		}
		off += 4
	}
	for i := 0; i < rr; i++ {
		if !skipName() || off+10 > len(b) {
			return 0, nil, false
		}
		typ := binary.BigEndian.Uint16(b[off:])
		if typ != dns.TypeOPT {
			ttls = append(ttls, off+4)
		}
		rdlen := int(binary.BigEndian.Uint16(b[off+8:]))
		off += 10 + rdlen
		if off > len(b) {
			return 0, nil, false
		}
	}
	return off, ttls, true
}

func maskTTL(b []byte) []byte {
	out := append([]byte(nil), b...)
	if _, ttls, ok := walkMsg(out); ok {
		for _, o := range ttls {
			copy(out[o:o+4], []byte{0, 0, 0, 0})
		}
	}
	return out
}

// ownSrvReply: is `got` an acceptable reply to the packet `sent` (real
// server behind it)? Judged from the client's side only.
func ownSrvReply(sent, got []byte) bool { return whyNotOwn(sent, got) == "" }

func whyNotOwn(sent, got []byte) string {
	if len(sent) < 12 || sent[2]&0x80 != 0 {
		return "the packet was unparseable or a response: it must never be answered"
	}
	if len(got) < 12 {
		return "shorter than a DNS header"
	}
	if got[0] != sent[0] || got[1] != sent[1] {
		return "id differs"
	}
	if len(got) == 12 && got[2]&0x80 != 0 && (got[3]&0xF == dns.RcodeFormatError || got[3]&0xF == dns.RcodeNotImplemented) {
		return ""
	}
	q := new(dns.Msg)
	if err := q.Unpack(sent); err != nil || len(q.Question) != 1 {
		return "the packet was malformed; only a bare rejection may answer it"
	}
	end, _, ok := walkMsg(got)
	if !ok || end != len(got) {
		return fmt.Sprintf("bytes beyond the DNS message (message ends at %d of %d)", end, len(got))
	}
	r := new(dns.Msg)
	if err := r.Unpack(got); err != nil {
		return "does not decode: " + err.Error()
	}
	if !r.Response || len(r.Question) != 1 || !strings.EqualFold(r.Question[0].Name, q.Question[0].Name) ||
		r.Question[0].Qtype != q.Question[0].Qtype || r.Question[0].Qclass != q.Question[0].Qclass {
		return "question differs from the query's"
	}
	if r.Question[0].Name != q.Question[0].Name {
		return fmt.Sprintf("the question section spells the name %q, this query spelled it %q: bytes of another client's query", r.Question[0].Name, q.Question[0].Name)
	}
	name := q.Question[0].Name
	if beh := behOf(name); strings.HasPrefix(beh, "v6") {
		for _, rr := range r.Answer {
			if !strings.EqualFold(rr.Header().Name, name) || rr.Header().Rrtype != dns.TypeAAAA {
				return "unexpected record in a DNS64 reply"
			}
		}
		return ""
	}
	if behOf(name) == "cn" {
		if r.Rcode == dns.RcodeServerFailure {
			return ""
		}
		if len(r.Answer) == 0 {
			return "alias reply without the CNAME"
		}
		cn, isCN := r.Answer[0].(*dns.CNAME)
		if !isCN || !strings.EqualFold(cn.Hdr.Name, name) || !strings.EqualFold(cn.Target, cnTarget(name)) {
			return "the CNAME is not this alias's"
		}
		for _, rr := range r.Answer[1:] {
			if a, isA := rr.(*dns.A); isA && q.Question[0].Qtype == dns.TypeA {
				if !strings.EqualFold(a.Hdr.Name, cnTarget(name)) || !a.A.Equal(net.IPv4(93, 184, 216, 35)) {
					return "the chased address is not this alias target's"
				}
				continue
			}
			t, isTxt := rr.(*dns.TXT)
			want := txtFor(cnTarget(name))
			if !isTxt || !strings.EqualFold(t.Hdr.Name, cnTarget(name)) || len(t.Txt) != len(want) || !strings.EqualFold(t.Txt[0], want[0]) {
				return "the chased record is not this alias target's"
			}
		}
		return ""
	}
	if strings.HasSuffix(strings.ToLower(name), viewZone) {
		return viewReplyOwn(q, r)
	}
	for _, x := range r.Extra {
		if _, isOpt := x.(*dns.OPT); !isOpt {
			return "unexpected additional record"
		}
	}
	if len(r.Ns) != 0 {
		return "unexpected authority record"
	}
	switch qc, rc := cookieOf(q), cookieOf(r); {
	case qc == "" && rc != "":
		return "the reply carries a COOKIE option (" + rc[:min(len(rc), 16)] + "…) although this query sent none: bytes of another client's query"
	case qc != "" && len(qc) < 16 && rc != "":
		return "the query's COOKIE was shorter than a client cookie (" + qc + "); the reply carries " + rc[:min(len(rc), 16)] + "…: bytes this query did not send"
	case len(qc) >= 16 && rc != "" && !strings.HasPrefix(rc, qc[:16]):
		return "the reply's COOKIE option echoes a client cookie this query did not send"
	}
	switch behOf(name) {
	case "nr":
		return "the handler wrote nothing for this query: nothing may be sent"
	case "pn":
		if r.Rcode == dns.RcodeServerFailure && len(r.Answer) == 0 {
			return ""
		}
		return "a panicked request may only be answered with an empty SERVFAIL"
	}
	if (r.Rcode == dns.RcodeServerFailure || r.Rcode == dns.RcodeBadCookie || r.Rcode == dns.RcodeRefused) && len(r.Answer) == 0 {
		return "" // shed / timed out / told to retry with a cookie: its own failure reply (id, question, cookie already judged)
	}
	if n, ok := bigCount(name); ok {
		if r.Truncated && len(r.Answer) == 0 {
			return "" // did not fit this client's UDP size: its own truncation
		}
		want := bigAnswers(name, n)
		if r.Rcode != dns.RcodeSuccess || len(r.Answer) != n {
			return fmt.Sprintf("rcode=%d answers=%d, want %d", r.Rcode, len(r.Answer), n)
		}
		for i, rr := range r.Answer {
			a, isA := rr.(*dns.A)
			if !isA || !strings.EqualFold(a.Hdr.Name, name) || !a.A.Equal(want[i].(*dns.A).A) {
				return fmt.Sprintf("answer %d is not this query's record", i)
			}
		}
		return ""
	}
	if r.Rcode != dns.RcodeSuccess || len(r.Answer) != 1 {
		return fmt.Sprintf("rcode=%d answers=%d", r.Rcode, len(r.Answer))
	}
	t, isTxt := r.Answer[0].(*dns.TXT)
	if !isTxt || !strings.EqualFold(t.Hdr.Name, name) {
		return "answer owner/type differs"
	}
	want := txtFor(name)
	if len(t.Txt) != len(want) || !strings.EqualFold(t.Txt[0], want[0]) || t.Txt[1] != want[1] {
		return "TXT payload does not encode this query's name"
	}
	return ""
}

var liveViews bool

func startLive(listen bool, tweak func(*config.Config)) *srvh.Live {
	// views decodes EVERY client query (it materializes before it looks at its zones), which takes the
	// whole wire-born hit path out of the picture: it is only in the chain when liveViews says so
	handlers := []string{"recovery", "edns", "dns64", "cache"}
	if liveViews {
		handlers = []string{"recovery", "edns", "views", "dns64", "cache"}
	}
	l := srvh.Start(srvh.Opts{Handlers: handlers, Listen: listen, Tweak: func(cfg *config.Config) {
		if liveViews {
			viewsTweak(cfg)
		}
		cfg.DNS64.Enabled = true
		cfg.DNS64.Prefixes = []string{"64:ff9b::/96"}
		cfg.DNS64.ClientNetworks = []string{"0.0.0.0/0", "::/0"}
		if tweak != nil {
			tweak(cfg)
		}
	}})
	l.Stub.Set(stubRespond)
	l.Stub.Delay = stubDelay
	l.Stub.Panic = stubPanic
	return l
}

// ---- usrv: the real Server behind the single-stepped UDP engine ---------------

func srvPacket(r *vlib.R, c, seq int, shared []string) []byte {
	id := uint16(c)<<10 | uint16(seq)
	switch r.Intn(14) {
	case 0: // an alias, asked by everybody in their own 0x20 spelling: the cache's chase composer on hits
		return mkTyped(id, rand0x20(r, fmt.Sprintf("alias%d-cn.z.c10.", r.Intn(2))), dns.TypeTXT)
	case 1: // dns64: AAAA without AAAA data, the A side failing in three ways or answering
		return mkTyped(id, fmt.Sprintf("c%d-s%d-%s.z.c10.", c, seq, vlib.Pick(r, []string{"v6nx", "v6sf", "v6nd", "v6ok"})), dns.TypeAAAA)
	case 2: // a shared name in this client's own spelling
		return mkTyped(id, rand0x20(r, vlib.Pick(r, shared)), dns.TypeTXT)
	}
	if r.Chance(1, 10) {
		m := new(dns.Msg)
		m.SetQuestion(bigName(c, seq, vlib.Pick(r, []int{58, 59, 60, 70})), dns.TypeA)
		m.Id = id
		m.SetEdns0(1232, false)
		b, _ := m.Pack()
		return b
	}
	switch k := r.Intn(20); {
	case k < 9:
		return mkQuery(id, fmt.Sprintf("c%d-s%d-ok.z.c10.", c, seq), r.Chance(4, 5))
	case k < 12:
		return mkQuery(id, vlib.Pick(r, shared), true)
	case k < 14:
		return mkQuery(id, fmt.Sprintf("c%d-s%d-nr.z.c10.", c, seq), true)
	case k < 16:
		return mkQuery(id, fmt.Sprintf("c%d-s%d-pn.z.c10.", c, seq), true)
	case k < 17: // a response (QR=1): ignored
		b := mkQuery(id, fmt.Sprintf("c%d-s%d-ok.z.c10.", c, seq), false)
		b[2] |= 0x80
		return b
	case k < 18: // truncated question
		b := mkQuery(id, fmt.Sprintf("c%d-s%d-ok.z.c10.", c, seq), false)
		return b[:len(b)-3]
	case k < 19: // garbage shorter than a header
		return r.Bytes(1 + r.Intn(10))
	default: // foreign opcode
		b := mkQuery(id, fmt.Sprintf("c%d-s%d-ok.z.c10.", c, seq), false)
		b[2] |= 0x28
		return b
	}
}

func runUSrv(seed uint64, steps int, dirtyPat int) (transcript []string, verdict string) {
	l := startLive(false, nil)
	defer l.Stop()
	rig, err := newUDPRig(l.Srv, false, 0, dirtyPat)
	if err != nil {
		return nil, "rig-error"
	}
	defer rig.close()
	r := vlib.NewR(seed)
	shared := []string{"shared1-ok.z.c10.", "shared2-ok.z.c10."}
	seq := 0
	verdict = "ok"
	note := func(ds []dgram) {
		for _, d := range ds {
			if d.client != nClients-1 { // the polluter's own replies are judged, not compared
				transcript = append(transcript, fmt.Sprintf("c%d %s", d.client, vlib.Hex(maskTTL(d.b))))
			}
		}
		if v := rig.judge(ds, ownSrvReply); v != "ok" && verdict == "ok" {
			verdict = strings.Replace(v, "sig=udp/", "sig=usrv/", 1)
		}
	}
	// In the dirty run the slabs the next read will take were last used by a
	// feature-rich request of ANOTHER client (cookie, DO, NSID): whatever a
	// request leaves in job-owned storage (slab fields, strict-path slots such
	// as the edns writer) is realistic residue, produced by the real code.
	polluteSeq := 0
	pollute := func() {
		if dirtyPat < 0 || len(rig.queued) > 0 || rig.u.Pending() > 0 {
			return
		}
		for k := 0; k < 8; k++ {
			polluteSeq++
			_, _ = rig.step([]string{"udp", "send", fmt.Sprint(nClients - 1), vlib.Hex(polluterQuery(nClients-1, polluteSeq))})
		}
		_, ds := rig.step([]string{"udp", "read", "batch", "16"})
		note(ds)
		for rig.u.Pending() > 0 {
			_, ds := rig.step([]string{"udp", "serve"})
			note(ds)
		}
		_, ds = rig.step([]string{"udp", "flush"})
		note(ds)
	}
	for i := 0; i < steps; i++ {
		switch k := r.Intn(10); {
		case k < 5:
			pollute()
			c := r.Intn(nClients - 1)
			seq++
			_, _ = rig.step([]string{"udp", "send", fmt.Sprint(c), vlib.Hex(srvPacket(r, c, seq, shared))})
		case k < 7:
			via := []string{"udp", "read", "batch", fmt.Sprint(1 + r.Intn(8))}
			if r.Chance(1, 4) {
				via = []string{"udp", "read", "portable"}
			}
			_, ds := rig.step(via)
			note(ds)
		case k < 9:
			_, ds := rig.step([]string{"udp", "serve"})
			note(ds)
		default:
			_, ds := rig.step([]string{"udp", "flush"})
			note(ds)
		}
	}
	for len(rig.queued) > 0 {
		_, ds := rig.step([]string{"udp", "read", "batch", "16"})
		note(ds)
	}
	for rig.u.Pending() > 0 {
		_, ds := rig.step([]string{"udp", "serve"})
		note(ds)
	}
	_, ds := rig.step([]string{"udp", "flush"})
	note(ds)
	if verdict == "ok" && rig.u.ParkedDirty() {
		verdict = fail("usrv/release/parked-slab-keeps-request-state", "")
	}
	return transcript, verdict
}

func polluterQuery(c, seq int) []byte {
	m := new(dns.Msg)
	m.SetQuestion(fmt.Sprintf("c%d-p%d-ok.z.c10.", c, seq), dns.TypeTXT)
	m.Id = uint16(c)<<10 | uint16(seq&1023)
	m.SetEdns0(4096, true)
	o := m.IsEdns0()
	o.Option = append(o.Option, &dns.EDNS0_COOKIE{Code: dns.EDNS0COOKIE, Cookie: "deadbeefcafef00d"}, &dns.EDNS0_NSID{Code: dns.EDNS0NSID})
	b, _ := m.Pack()
	return b
}

// execCookie: on ONE job (admission cap 1 / one connection) a sequence of
// queries from alternating clients: c = OPT with a client cookie of its own,
// n = OPT without cookie, p = no OPT. Every reply must carry exactly the
// cookie its own query sent (none when it sent none). Result: the client
// cookie seen in each reply, "-" for none.
func execCookie(mode, pattern string) vlib.Res {
	l := startLive(false, nil)
	defer l.Stop()
	var qs [][]byte
	for i, c := range pattern {
		m := new(dns.Msg)
		m.SetQuestion(fmt.Sprintf("c%d-s%d-ok.z.c10.", i%2, i+1), dns.TypeTXT)
		m.Id = uint16(i%2)<<10 | uint16(i+1)
		if c != 'p' {
			m.SetEdns0(1232, c == 'c' && i%3 == 0)
			if c == 'c' {
				o := m.IsEdns0()
				o.Option = append(o.Option, &dns.EDNS0_COOKIE{Code: dns.EDNS0COOKIE, Cookie: fmt.Sprintf("%016x", 0xc00c1e0000000000+uint64(i+1))})
			}
			if c == 's' {
				// 1..7 cookie bytes, the last thing in the datagram: an 8-byte read runs into whatever the slab held
				o := m.IsEdns0()
				o.Option = append(o.Option, &dns.EDNS0_COOKIE{Code: dns.EDNS0COOKIE, Cookie: "5a5b5c5d5e5f50"[:2*(1+i%7)]})
			}
		}
		b, _ := m.Pack()
		qs = append(qs, b)
	}
	or := "ok"
	var replies [][]byte
	if mode == "tcp" {
		t := server.VerifC10NewTCP(nil, l.Srv, 8)
		var stream []byte
		for _, p := range qs {
			stream = binary.BigEndian.AppendUint16(stream, uint16(len(p)))
			stream = append(stream, p...)
		}
		c := runConn(t, stream, "-", 0)
		var rest []byte
		replies, rest = splitFrames(c.out)
		if len(rest) != 0 {
			or = fail("usrv/cookie/tcp/partial-frame", "%d stray bytes", len(rest))
		}
	} else {
		rig, err := newUDPRig(l.Srv, false, 1, -1)
		if err != nil {
			return vlib.Res{Impl: "rig-error"}
		}
		defer rig.close()
		for i, p := range qs {
			_, _ = rig.step([]string{"udp", "send", fmt.Sprint(i % 2), vlib.Hex(p)})
			_, ds := rig.step([]string{"udp", "drain"})
			for _, d := range ds {
				if d.client != i%2 && or == "ok" {
					or = fail("usrv/cookie/udp/reply-to-wrong-client", "client c%d received a datagram while only c%d had a query outstanding", d.client, i%2)
				}
				replies = append(replies, d.b)
			}
		}
	}
	if or == "ok" && len(replies) != len(qs) {
		or = fail("usrv/cookie/"+mode+"/reply-count", "%d replies to %d queries", len(replies), len(qs))
	}
	seen := make([]string, len(replies))
	for i, rb := range replies {
		seen[i] = "?"
		r := new(dns.Msg)
		if r.Unpack(rb) == nil {
			seen[i] = "-"
			if c := cookieOf(r); len(c) >= 16 {
				seen[i] = c[:16]
			}
		}
		if or == "ok" && i < len(qs) {
			if why := whyNotOwn(qs[i], rb); why != "" {
				or = fail("usrv/cookie/"+mode+"/not-own-bytes", "reply %d: %s", i+1, why)
			}
		}
	}
	return vlib.Res{Impl: strings.Join(seen, ","), Oracle: or, Tags: "nt"}
}

// execSpell: on the strict path of a real engine (UDP rig, or one TCP
// connection), every name is asked three times — a miss and two hits — each time
// by another client in another 0x20 spelling. Every reply must spell the question
// exactly as ITS query did, carry its id, and its own answer (alias chases,
// compressible answers, DNS64 with a failing A side included).
func execSpell(mode string, seed uint64, kinds []string) vlib.Res {
	l := startLive(false, nil)
	defer l.Stop()
	r := vlib.NewR(seed)
	spellSeq++
	var qs [][]byte
	for i, k := range kinds {
		base, qt := "", dns.TypeTXT
		switch {
		case k == "cn":
			base = fmt.Sprintf("sp%d-n%d-cn.z.c10.", spellSeq, i)
		case k == "cnseed":
			// an alias entry that holds ONLY the CNAME (admitted under another client's spelling) and a
			// separately cached target: later hits go through the cache's chase composer
			base = fmt.Sprintf("sp%d-n%d-cn.z.c10.", spellSeq, i)
			first := rand0x20(r, base)
			am := new(dns.Msg)
			qt = dns.TypeA
			am.SetQuestion(first, dns.TypeA)
			am.Response, am.RecursionAvailable = true, true
			am.Answer = []dns.RR{&dns.CNAME{Hdr: dns.RR_Header{Name: first, Rrtype: dns.TypeCNAME, Class: dns.ClassINET, Ttl: 300}, Target: cnTarget(base)}}
			tm := new(dns.Msg)
			tm.SetQuestion(cnTarget(base), dns.TypeA)
			tm.Response, tm.RecursionAvailable = true, true
			tm.Answer = []dns.RR{&dns.A{Hdr: dns.RR_Header{Name: cnTarget(base), Rrtype: dns.TypeA, Class: dns.ClassINET, Ttl: 300}, A: net.IPv4(93, 184, 216, 35)}}
			cache.VerifC10Seed(l.Cache, am)
			cache.VerifC10Seed(l.Cache, tm)
		case strings.HasPrefix(k, "v6"):
			base, qt = fmt.Sprintf("sp%d-n%d-%s.z.c10.", spellSeq, i, k), dns.TypeAAAA
		case k == "big":
			base, qt = bigName(spellSeq%1000, i, 60), dns.TypeA
		default:
			base = fmt.Sprintf("sp%d-n%d-ok.z.c10.", spellSeq, i)
		}
		for rep := 0; rep < 3; rep++ {
			c := (i + rep) % 3
			qs = append(qs, mkTyped(uint16(c)<<10|uint16(len(qs)+1), rand0x20(r, base), qt))
		}
	}
	var replies [][]byte
	if mode == "tcp" {
		t := server.VerifC10NewTCP(nil, l.Srv, 8)
		var stream []byte
		for _, p := range qs {
			stream = binary.BigEndian.AppendUint16(stream, uint16(len(p)))
			stream = append(stream, p...)
		}
		replies, _ = splitFrames(runConn(t, stream, "-", 0).out)
	} else {
		rig, err := newUDPRig(l.Srv, false, 2, -1)
		if err != nil {
			return vlib.Res{Impl: "rig-error"}
		}
		defer rig.close()
		for i, p := range qs {
			_, _ = rig.step([]string{"udp", "send", fmt.Sprint(int(p[0]) >> 2), vlib.Hex(p)})
			_, ds := rig.step([]string{"udp", "drain"})
			if len(ds) != 1 {
				return vlib.Res{Impl: fmt.Sprintf("q%d:%d-replies", i+1, len(ds)), Oracle: fail("usrv/spell/reply-count", "query %d got %d replies", i+1, len(ds)), Tags: "nt"}
			}
			replies = append(replies, ds[0].b)
		}
	}
	or := "ok"
	out := make([]string, len(qs))
	for i := range qs {
		out[i] = "-"
		if i < len(replies) {
			if os.Getenv("VERIF_C10_DEBUG") != "" {
				m := new(dns.Msg)
				_ = m.Unpack(replies[i])
				fmt.Fprintf(os.Stderr, "ASK %s id=%d\nREPLY %s\n", nameOfRaw(qs[i]), binary.BigEndian.Uint16(qs[i]), strings.ReplaceAll(m.String(), "\n", " | "))
			}
			out[i] = "q"
			if why := whyNotOwn(qs[i], replies[i]); why != "" {
				out[i] = "x"
				if or == "ok" {
					or = fail("usrv/spell/"+kinds[i/3]+"/not-own-bytes", "ask %d of %q: %s", i%3+1, nameOfRaw(qs[i]), why)
				}
			}
		}
	}
	return vlib.Res{Impl: strings.Join(out, ""), Oracle: or, Tags: "nt,spell"}
}

var spellSeq int

// execRL: clientratelimit on, every query from ONE non-loopback source address
// (clients behind a NAT: other ports, other client cookies). c = OPT with this
// client's own cookie, n = OPT without, p = no OPT, s = a short cookie. Whatever
// the limiter answers (the reply, or BADCOOKIE), a reply's COOKIE must begin with
// the client cookie of ITS query.
func execRL(mode, pattern string) vlib.Res {
	l := srvh.Start(srvh.Opts{Handlers: []string{"recovery", "ratelimit", "edns", "cache"}, Tweak: func(cfg *config.Config) {
		cfg.ClientRateLimit = 100000
	}})
	defer l.Stop()
	l.Stub.Set(stubRespond)
	rlSeq++
	or := "ok"
	seen := make([]string, 0, len(pattern))
	for i, c := range pattern {
		m := new(dns.Msg)
		m.SetQuestion(fmt.Sprintf("rl%d-s%d-ok.z.c10.", rlSeq, i+1), dns.TypeTXT)
		m.Id = uint16(i%3)<<10 | uint16(i+1)
		if c != 'p' {
			m.SetEdns0(1232, false)
			o := m.IsEdns0()
			switch c {
			case 'c':
				o.Option = append(o.Option, &dns.EDNS0_COOKIE{Code: dns.EDNS0COOKIE, Cookie: fmt.Sprintf("%016x", 0xc00c1e0000000000+uint64(i+1))})
			case 's':
				o.Option = append(o.Option, &dns.EDNS0_COOKIE{Code: dns.EDNS0COOKIE, Cookie: "5a5b5c5d5e5f50"[:2*(1+i%7)]})
			}
		}
		raw, _ := m.Pack()
		remote := &net.UDPAddr{IP: net.IPv4(203, 0, 113, 7), Port: 4000 + i%3}
		var replies [][]byte
		if mode == "msg" {
			w := l.Msg(m.Copy(), remote, "udp")
			for _, x := range w.Msgs {
				b, _ := x.Pack()
				replies = append(replies, b)
			}
		} else {
			replies, _, _ = l.Raw(raw, remote)
		}
		tok := "none"
		if len(replies) > 1 && or == "ok" {
			or = fail("usrv/rl/reply-count", "query %d got %d replies", i+1, len(replies))
		}
		if len(replies) >= 1 {
			tok = "?"
			r := new(dns.Msg)
			if r.Unpack(replies[0]) == nil {
				tok = "-"
				if ck := cookieOf(r); len(ck) >= 16 {
					tok = ck[:16]
				}
			}
			if why := whyNotOwn(raw, replies[0]); why != "" && or == "ok" {
				or = fail("usrv/rl/"+mode+"/not-own-bytes", "reply %d (client port %d): %s", i+1, remote.Port, why)
			}
		}
		seen = append(seen, tok)
	}
	return vlib.Res{Impl: strings.Join(seen, ","), Oracle: or, Tags: "nt,ratelimit"}
}

var rlSeq int

func execUSrv(f []string) vlib.Res {
	if f[1] == "rl" {
		return execRL(f[2], f[3])
	}
	if f[1] == "cookie" {
		return execCookie(f[2], f[3])
	}
	if f[1] == "spell" {
		return execSpell(f[2], vlib.AtoU64(f[3]), strings.Split(f[4], ","))
	}
	seed, steps, pat := vlib.AtoU64(f[2]), vlib.Atoi(f[3]), int(vlib.UnHex(f[4])[0])
	ta, va := runUSrv(seed, steps, -1)
	tb, vb := runUSrv(seed, steps, pat)
	// the polluter shifts when pending jobs are served, never their relative order: compare as multisets
	sort.Strings(ta)
	sort.Strings(tb)
	or := va
	if or == "ok" && vb != "ok" {
		or = strings.Replace(vb, "sig=usrv/", "sig=usrv/dirty-slab/", 1)
	}
	if or == "ok" && strings.Join(ta, "\n") != strings.Join(tb, "\n") {
		d := 0
		for d < len(ta) && d < len(tb) && ta[d] == tb[d] {
			d++
		}
		or = fail("usrv/residue", "the same run on scribbled slabs sent different bytes (datagram #%d of %d/%d)", d+1, len(ta), len(tb))
		if os.Getenv("VERIF_C10_DEBUG") != "" && d < len(ta) && d < len(tb) {
			fmt.Fprintf(os.Stderr, "A: %s\nB: %s\n", ta[d], tb[d])
		}
	}
	return vlib.Res{Impl: fmt.Sprintf("datagrams=%d", len(ta)), Oracle: or, Tags: "nt"}
}

// ---- tsrv: the real Server behind tcpEngine.serveConn on a scripted conn -------

func runTSrv(seed uint64, frames int, dirty bool, pat byte) (in, out []byte) {
	l := startLive(false, nil)
	defer l.Stop()
	r := vlib.NewR(seed)
	shared := []string{"shared1-ok.z.c10.", "shared2-ok.z.c10."}
	var stream []byte
	var specs []string
	for i := 1; i <= frames; i++ {
		p := srvPacket(r, 1, i, shared)
		if len(p) < 12 && r.Chance(2, 3) {
			p = mkQuery(uint16(1<<10|i), fmt.Sprintf("c1-s%d-ok.z.c10.", i), true)
		}
		stream = binary.BigEndian.AppendUint16(stream, uint16(len(p)))
		stream = append(stream, p...)
		if r.Chance(1, 2) {
			specs = append(specs, fmt.Sprint(1+r.Intn(90)))
		}
	}
	spec := "-"
	if len(specs) > 0 {
		spec = strings.Join(specs, ",")
	}
	t := server.VerifC10NewTCP(nil, l.Srv, 8)
	if dirty {
		t.SeedDirty(pat)
		// a previous connection of another client, every EDNS feature on, on the same slabs
		var ps []byte
		for i := 1; i <= 3; i++ {
			p := polluterQuery(3, i)
			ps = binary.BigEndian.AppendUint16(ps, uint16(len(p)))
			ps = append(ps, p...)
		}
		_ = runConn(t, ps, "-", 0)
	}
	c := runConn(t, stream, spec, 0)
	return stream, c.out
}

func maskFrames(out []byte) []byte {
	frames, rest := splitFrames(out)
	var b []byte
	for _, f := range frames {
		b = binary.BigEndian.AppendUint16(b, uint16(len(f)))
		b = append(b, maskTTL(f)...)
	}
	return append(b, rest...)
}

func execTSrv(f []string) vlib.Res {
	seed, frames, pat := vlib.AtoU64(f[2]), vlib.Atoi(f[3]), vlib.UnHex(f[4])[0]
	in, a := runTSrv(seed, frames, false, 0)
	_, b := runTSrv(seed, frames, true, pat)
	or := judgeStream(in, a, ownSrvReply, "tsrv")
	if or == "ok" {
		or = judgeStream(in, b, ownSrvReply, "tsrv/dirty-slab")
	}
	if or == "ok" && !bytes.Equal(maskFrames(a), maskFrames(b)) {
		or = fail("tsrv/residue", "the same connection on scribbled storage produced different bytes: %d vs %d", len(a), len(b))
	}
	nf, _ := splitFrames(a)
	return vlib.Res{Impl: fmt.Sprintf("frames=%d", len(nf)), Oracle: or, Tags: "nt"}
}

// ---- stress: real sockets, many concurrent clients ----------------------------

type stressStats struct {
	sent, replies, ignoredSent, panicsSent, silentSent, sharedSent, hitsSent, malformed atomic.Int64
	tcpBursts, tcpRefused, boundary                                                      atomic.Int64
}

type failBox struct {
	mu sync.Mutex
	v  string
}

func (b *failBox) set(sig, format string, a ...any) {
	b.mu.Lock()
	if b.v == "" {
		b.v = fail(sig, format, a...)
	}
	b.mu.Unlock()
}
func (b *failBox) get() string { b.mu.Lock(); defer b.mu.Unlock(); return b.v }

type cq struct {
	raw      []byte
	answered bool
	skipped  bool
}

func stressPacket(r *vlib.R, c, seq int, nShared int, st *stressStats, mine []string) ([]byte, string) {
	id := uint16(c)<<10 | uint16(seq)
	name := ""
	switch k := r.Intn(40); {
	case k < 14:
		name = fmt.Sprintf("c%d-s%d-ok.z.c10.", c, seq)
	case k < 19:
		name = fmt.Sprintf("c%d-s%d-d%d.z.c10.", c, seq, 1+r.Intn(4))
	case k < 27:
		name = fmt.Sprintf("shared%d-d2.z.c10.", r.Intn(nShared))
		st.sharedSent.Add(1)
	case k < 31 && len(mine) > 0:
		name = vlib.Pick(r, mine) // a name this client asked before: a cache hit
		st.hitsSent.Add(1)
	case k < 33:
		name = fmt.Sprintf("c%d-s%d-nr.z.c10.", c, seq)
		st.silentSent.Add(1)
	case k < 35:
		name = fmt.Sprintf("c%d-s%d-pn.z.c10.", c, seq)
		st.panicsSent.Add(1)
	case k < 37:
		b := mkQuery(id, fmt.Sprintf("c%d-s%d-ok.z.c10.", c, seq), false)
		b[2] |= 0x80
		st.ignoredSent.Add(1)
		return b, ""
	case k < 38:
		b := mkQuery(id, fmt.Sprintf("c%d-s%d-ok.z.c10.", c, seq), false)
		st.malformed.Add(1)
		return b[:len(b)-3], ""
	case k < 39:
		st.malformed.Add(1)
		return r.Bytes(1 + r.Intn(10)), ""
	default:
		name = fmt.Sprintf("c%d-s%d-ok.z.c10.", c, seq)
	}
	switch r.Intn(30) {
	case 0, 1:
		return mkTyped(id, rand0x20(r, fmt.Sprintf("alias%d-cn.z.c10.", r.Intn(nShared))), dns.TypeTXT), ""
	case 2:
		return mkTyped(id, fmt.Sprintf("c%d-s%d-%s.z.c10.", c, seq, vlib.Pick(r, []string{"v6nx", "v6sf", "v6nd", "v6ok"})), dns.TypeAAAA), ""
	case 3, 4:
		return mkTyped(id, rand0x20(r, fmt.Sprintf("shared%d-d2.z.c10.", r.Intn(nShared))), dns.TypeTXT), ""
	case 5:
		if len(mine) > 0 {
			return mkTyped(id, rand0x20(r, vlib.Pick(r, mine)), dns.TypeTXT), ""
		}
	}
	if r.Chance(1, 16) {
		// a reply that compresses from ~5 KB to ~1.2 KB (the Msg path: TryPack declines it)
		m := new(dns.Msg)
		m.SetQuestion(bigName(c, seq, vlib.Pick(r, []int{58, 59, 60, 66, 70})), dns.TypeA)
		m.Id = id
		m.SetEdns0(1232, false)
		b, _ := m.Pack()
		return b, ""
	}
	if liveViews && r.Chance(1, 12) {
		// a per-client static answer (views), in this client's own 0x20 spelling
		m := new(dns.Msg)
		m.SetQuestion(rand0x20(r, vlib.Pick(r, []string{"www." + viewZone, "www." + viewZone, "h1.wild." + viewZone})), dns.TypeA)
		m.Id = id
		m.SetEdns0(1232, false)
		b, _ := m.Pack()
		return b, ""
	}
	return mkQuery(id, name, r.Chance(5, 6)), name
}

func udpClient(addr string, c, n int, seed uint64, nShared int, st *stressStats, fb *failBox, sendersDone *sync.WaitGroup, quiet <-chan struct{}, done *sync.WaitGroup) {
	defer done.Done()
	r := vlib.NewR(seed*1000003 + uint64(c))
	conn, err := net.Dial("udp4", addr)
	if err != nil {
		sendersDone.Done()
		return
	}
	defer conn.Close()
	qs := map[int]*cq{}
	var mine []string
	buf := make([]byte, 70000)
	handle := func(b []byte) {
		if len(b) < 12 {
			fb.set("stress/udp/foreign-bytes", "client %d received %d bytes that are no DNS message: %s", c, len(b), vlib.Hex(b))
			return
		}
		id := binary.BigEndian.Uint16(b)
		if int(id>>10) != c {
			fb.set("stress/udp/reply-of-another-client", "client %d received a reply carrying id %#04x (client %d's space)", c, id, id>>10)
			return
		}
		q := qs[int(id&1023)]
		if q == nil {
			fb.set("stress/udp/reply-to-unsent-query", "client %d received id %#04x which it never sent", c, id)
			return
		}
		if q.answered {
			fb.set("stress/udp/duplicate-or-leftover-reply", "client %d received a second reply for id %#04x", c, id)
			return
		}
		if why := whyNotOwn(q.raw, b); why != "" {
			fb.set("stress/udp/not-own-bytes", "client %d id %#04x: %s", c, id, why)
			return
		}
		q.answered = true
		st.replies.Add(1)
	}
	collect := func(d time.Duration) {
		_ = conn.SetReadDeadline(time.Now().Add(d))
		for {
			k, err := conn.Read(buf)
			if err != nil {
				return
			}
			handle(buf[:k])
		}
	}
	seq := 0
	for seq < n {
		burst := 1 + r.Intn(8)
		for i := 0; i < burst && seq < n; i++ {
			seq++
			raw, name := stressPacket(r, c, seq, nShared, st, mine)
			qs[seq] = &cq{raw: raw}
			if name != "" && strings.HasSuffix(name, "-ok.z.c10.") && len(mine) < 32 {
				mine = append(mine, name)
			}
			_, _ = conn.Write(raw)
			st.sent.Add(1)
		}
		collect(time.Duration(200+r.Intn(1500)) * time.Microsecond)
	}
	sendersDone.Done()
	<-quiet
	collect(30 * time.Millisecond)
}

func tcpClient(addr string, c, n int, seed uint64, nShared int, st *stressStats, fb *failBox, sendersDone *sync.WaitGroup) {
	defer sendersDone.Done()
	r := vlib.NewR(seed*7000003 + uint64(c))
	seq := 0
	var mine []string
	for attempts := 0; seq < n && attempts < 50; attempts++ {
		conn, err := net.DialTimeout("tcp4", addr, time.Second)
		if err != nil {
			continue
		}
		var outstanding []*cq
		readReplies := func(want int, d time.Duration) bool {
			_ = conn.SetReadDeadline(time.Now().Add(d))
			for got := 0; got < want; {
				var pre [2]byte
				if _, err := io.ReadFull(conn, pre[:1]); err != nil {
					return false // timeout or closed between frames
				}
				if _, err := io.ReadFull(conn, pre[1:]); err != nil {
					fb.set("stress/tcp/partial-frame", "client %d: stream ended inside a length prefix", c)
					return false
				}
				body := make([]byte, binary.BigEndian.Uint16(pre[:]))
				if _, err := io.ReadFull(conn, body); err != nil {
					fb.set("stress/tcp/partial-frame", "client %d: stream ended inside a %d-byte frame", c, len(body))
					return false
				}
				if len(body) < 12 {
					fb.set("stress/tcp/foreign-bytes", "client %d: %d-byte frame", c, len(body))
					return false
				}
				id := binary.BigEndian.Uint16(body)
				idx := -1
				for i, q := range outstanding {
					if binary.BigEndian.Uint16(q.raw) == id && len(q.raw) >= 12 {
						idx = i
						break
					}
				}
				switch {
				case idx < 0 && int(id>>10) != c:
					fb.set("stress/tcp/reply-of-another-client", "client %d received a frame carrying id %#04x", c, id)
					return false
				case idx < 0:
					fb.set("stress/tcp/reply-to-unsent-query", "client %d received id %#04x, not outstanding on this connection", c, id)
					return false
				case outstanding[idx].answered:
					fb.set("stress/tcp/duplicate-reply", "client %d: second reply for id %#04x", c, id)
					return false
				case outstanding[idx].skipped:
					fb.set("stress/tcp/out-of-order", "client %d: reply for id %#04x arrived after the reply to a later query", c, id)
					return false
				}
				if why := whyNotOwn(outstanding[idx].raw, body); why != "" {
					fb.set("stress/tcp/not-own-bytes", "client %d id %#04x: %s", c, id, why)
					return false
				}
				for i := 0; i < idx; i++ {
					if !outstanding[i].answered {
						outstanding[i].skipped = true
					}
				}
				outstanding[idx].answered = true
				st.replies.Add(1)
				got++
			}
			return true
		}
		alive := true
		for alive && seq < n {
			k := 1 + r.Intn(6)
			var wire []byte
			expect := 0
			for i := 0; i < k && seq < n; i++ {
				seq++
				raw, name := stressPacket(r, c, seq, nShared, st, mine)
				if len(raw) < 12 {
					raw = mkQuery(uint16(c)<<10|uint16(seq), fmt.Sprintf("c%d-s%d-ok.z.c10.", c, seq), true)
					name = ""
				}
				if name != "" && strings.HasSuffix(name, "-ok.z.c10.") && len(mine) < 32 {
					mine = append(mine, name)
				}
				outstanding = append(outstanding, &cq{raw: raw})
				wire = binary.BigEndian.AppendUint16(wire, uint16(len(raw)))
				wire = append(wire, raw...)
				st.sent.Add(1)
				if raw[2]&0x80 == 0 && (len(raw) < 14 || behOf(nameOfRaw(raw)) != "nr") {
					expect++
				}
			}
			st.tcpBursts.Add(1)
			if _, err := conn.Write(wire); err != nil {
				alive = false
				break
			}
			if !readReplies(expect, 1500*time.Millisecond) {
				alive = false
			}
		}
		if alive {
			// nothing more may arrive on an idle connection
			readReplies(1, 5*time.Millisecond)
		}
		if len(outstanding) == 0 {
			st.tcpRefused.Add(1)
		}
		_ = conn.Close()
		if fb.get() != "" {
			return
		}
	}
}

// msgClient drives Server.ServeMsg (the DoH / DoQ / embedder entry: decoded
// request, pooled chain) concurrently with the socket clients; each call has
// its own capturing writer, which must receive its own reply and nothing else.
func msgClient(l *srvh.Live, c, n int, seed uint64, nShared int, st *stressStats, fb *failBox, done *sync.WaitGroup) {
	defer done.Done()
	r := vlib.NewR(seed*9000011 + uint64(c))
	var mine []string
	remote := &net.TCPAddr{IP: net.IPv4(198, 51, 100, byte(c)), Port: 5000 + c}
	for seq := 1; seq <= n; seq++ {
		raw, name := stressPacket(r, c, seq, nShared, st, mine)
		req := new(dns.Msg)
		if len(raw) < 12 || req.Unpack(raw) != nil || len(req.Question) != 1 || req.Response {
			continue
		}
		if name != "" && strings.HasSuffix(name, "-ok.z.c10.") && len(mine) < 32 {
			mine = append(mine, name)
		}
		st.sent.Add(1)
		w := l.Msg(req, remote, vlib.Pick(r, []string{"doh", "doq"}))
		if len(w.Msgs) > 1 {
			fb.set("stress/msg/more-than-one-reply", "ServeMsg caller %d seq %d received %d replies", c, seq, len(w.Msgs))
			return
		}
		for _, m := range w.Msgs {
			b, err := m.Pack()
			if err != nil {
				continue
			}
			if why := whyNotOwn(raw, b); why != "" {
				fb.set("stress/msg/not-own-reply", "ServeMsg caller %d seq %d: %s", c, seq, why)
				return
			}
			st.replies.Add(1)
		}
	}
}

// boundaryClient pipelines cache hits whose reply sizes it has measured, so
// that the replies staged in the connection's drain buffer end at every offset
// within a few bytes of the buffer's size (the branch points of
// tcpStream.stage). Every burst must come back as whole frames, one per query,
// in order.
func boundaryClient(addr string, c, drain int, st *stressStats, fb *failBox, done *sync.WaitGroup) {
	defer done.Done()
	conn, err := net.DialTimeout("tcp4", addr, time.Second)
	if err != nil {
		return
	}
	defer conn.Close()
	seq := 0
	plain := func(name string) []byte {
		seq++
		m := new(dns.Msg)
		m.SetQuestion(name, dns.TypeTXT)
		m.Id = uint16(c)<<10 | uint16(seq)
		m.SetEdns0(1232, false)
		b, _ := m.Pack()
		return b
	}
	// ask pipelines the names in one write and returns the reply lengths (nil = connection unusable)
	ask := func(names ...string) []int {
		var wire []byte
		var raws [][]byte
		for _, n := range names {
			raw := plain(n)
			raws = append(raws, raw)
			wire = binary.BigEndian.AppendUint16(wire, uint16(len(raw)))
			wire = append(wire, raw...)
		}
		st.sent.Add(int64(len(names)))
		st.tcpBursts.Add(1)
		if _, err := conn.Write(wire); err != nil {
			return nil
		}
		_ = conn.SetReadDeadline(time.Now().Add(2 * time.Second))
		var lens []int
		for i, raw := range raws {
			var pre [2]byte
			if _, err := io.ReadFull(conn, pre[:]); err != nil {
				return nil
			}
			body := make([]byte, binary.BigEndian.Uint16(pre[:]))
			if _, err := io.ReadFull(conn, body); err != nil {
				fb.set("stress/tcp/partial-frame", "boundary client %d: the stream ended inside reply %d of a %d-query burst (frame announced %d bytes)", c, i+1, len(raws), len(body))
				return nil
			}
			if why := whyNotOwn(raw, body); why != "" {
				fb.set("stress/tcp/burst-misframed", "boundary client %d: reply %d of a %d-query burst (%d bytes) is not the reply to query %d: %s", c, i+1, len(raws), len(body), i+1, why)
				return nil
			}
			st.replies.Add(1)
			lens = append(lens, len(body))
		}
		return lens
	}
	big1 := fmt.Sprintf("c%02d-big1-b3900.z.c10.", c)
	big2 := fmt.Sprintf("c%02d-big2-b3880.z.c10.", c)
	fill := func(i, pad int) string { return fmt.Sprintf("c%02d-f%02d-b%04d.z.c10.", c, i, pad) }
	tail := fmt.Sprintf("c%02d-tail-b0007.z.c10.", c)
	// warm (misses), then measure the hits one by one
	for _, n := range []string{big1, big2, fill(99, 1), tail} {
		if ask(n) == nil {
			return
		}
	}
	var l [3]int
	for i, n := range []string{big1, big2, fill(99, 1)} {
		r := ask(n)
		if r == nil {
			return
		}
		l[i] = r[0]
	}
	for i, delta := 0, -5; delta <= 5; i, delta = i+1, delta+1 {
		// staged total after the third reply: (2+l0) + (2+l1) + 2 + (l2 - 1 + pad)  ==  drain + delta
		pad := drain + delta - (2 + l[0]) - (2 + l[1]) - 2 - (l[2] - 1)
		if pad < 1 || pad > 250 {
			continue
		}
		if ask(fill(i, pad)) == nil { // warm the filler
			return
		}
		if ask(big1, big2, fill(i, pad), tail) == nil {
			return
		}
		st.boundary.Add(1)
	}
}

// dohClient: whole DoH exchanges through the real Server.ServeHTTP (wire
// format POST). The HTTP response body must be the reply to this exchange's
// query.
func dohClient(l *srvh.Live, c, n int, seed uint64, nShared int, st *stressStats, fb *failBox, done *sync.WaitGroup) {
	defer done.Done()
	r := vlib.NewR(seed*5000011 + uint64(c))
	var mine []string
	for seq := 1; seq <= n && fb.get() == ""; seq++ {
		raw, name := stressPacket(r, c, seq, nShared, st, mine)
		if len(raw) < 12 || raw[2]&0x80 != 0 || new(dns.Msg).Unpack(raw) != nil {
			continue
		}
		if r.Chance(1, 3) { // more of what ends in a bare rcode reply
			raw = mkQuery(uint16(c)<<10|uint16(seq), fmt.Sprintf("c%d-s%d-pn.z.c10.", c, seq), true)
			name = ""
		}
		if name != "" && strings.HasSuffix(name, "-ok.z.c10.") && len(mine) < 32 {
			mine = append(mine, name)
		}
		if r.Chance(1, 10) {
			// a body that ends after the question although ARCOUNT says 1
			m := new(dns.Msg)
			m.SetQuestion(fmt.Sprintf("c%02d-s%04d-ok.z.c10.", c%100, seq), dns.TypeTXT)
			m.Id = uint16(c)<<10 | uint16(seq)
			raw, _ = m.Pack()
			raw[11] = 1
		}
		st.sent.Add(1)
		rec := httptest.NewRecorder()
		hr := httptest.NewRequest(http.MethodPost, "/dns-query", bytes.NewReader(raw))
		hr.Header.Set("Content-Type", "application/dns-message")
		hr.RemoteAddr = fmt.Sprintf("198.51.100.%d:%d", c, 8000+c)
		l.Srv.ServeHTTP(rec, hr)
		if rec.Code != http.StatusOK {
			continue
		}
		body, _ := io.ReadAll(rec.Body)
		if why := whyNotOwn(raw, body); why != "" {
			fb.set("stress/doh/not-own-reply", "DoH exchange of client %d seq %d (%s): %s", c, seq, nameOfRaw(raw), why)
			return
		}
		st.replies.Add(1)
	}
}

func nameOfRaw(raw []byte) string {
	m := new(dns.Msg)
	if err := m.Unpack(raw); err != nil || len(m.Question) != 1 {
		return ""
	}
	return m.Question[0].Name
}

func execStress(f []string) vlib.Res {
	// stress run <seed> <udp-clients> <tcp-clients> <per-client> <workers> <queue> <tcpconns>
	seed := vlib.AtoU64(f[2])
	nu, nt, per := vlib.Atoi(f[3]), vlib.Atoi(f[4]), vlib.Atoi(f[5])
	workers, queue, conns := vlib.Atoi(f[6]), vlib.Atoi(f[7]), vlib.Atoi(f[8])
	if per > 1000 {
		per = 1000
	}
	// every third run has views in the chain (all queries decoded); the others keep the wire-born hit path
	liveViews = seed%3 == 0
	defer func() { liveViews = false }()
	l := startLive(true, func(cfg *config.Config) {
		cfg.IngressWorkers = workers
		cfg.IngressQueue = queue
		cfg.IngressTCPConns = conns
		cfg.QueryTimeout.Duration = 2 * time.Second
	})
	defer l.Stop()
	st := &stressStats{}
	fb := &failBox{}
	var senders, udpDone sync.WaitGroup
	quiet := make(chan struct{})
	nShared := 3
	for c := 0; c < nu; c++ {
		senders.Add(1)
		udpDone.Add(1)
		go udpClient(l.Addr, c, per, seed, nShared, st, fb, &senders, quiet, &udpDone)
	}
	for c := 0; c < nt; c++ {
		senders.Add(1)
		go tcpClient(l.Addr, nu+c, per, seed, nShared, st, fb, &senders)
	}
	for c := 0; c < 4; c++ {
		senders.Add(1)
		go msgClient(l, nu+nt+c, per, seed, nShared, st, fb, &senders)
	}
	for c := 0; c < 4; c++ {
		senders.Add(1)
		go dohClient(l, nu+nt+5+c, per, seed, nShared, st, fb, &senders)
	}
	senders.Add(1)
	go boundaryClient(l.Addr, nu+nt+4, server.VerifC10Sizes()["tcp_drain"], st, fb, &senders)
	senders.Wait()
	deadline := time.Now().Add(4 * time.Second)
	for !l.Srv.Quiesced() && time.Now().Before(deadline) {
		time.Sleep(time.Millisecond)
	}
	close(quiet)
	udpDone.Wait()
	or := fb.get()
	if or == "" {
		or = "ok"
	}
	impl := fmt.Sprintf("done sent=%d replies=%d shared=%d hits=%d silent=%d panics=%d ignored=%d malformed=%d tcpbursts=%d boundary=%d",
		st.sent.Load(), st.replies.Load(), st.sharedSent.Load(), st.hitsSent.Load(), st.silentSent.Load(), st.panicsSent.Load(),
		st.ignoredSent.Load(), st.malformed.Load(), st.tcpBursts.Load(), st.boundary.Load())
	tags := ""
	if st.replies.Load() > 0 && st.sharedSent.Load() > 1 && st.panicsSent.Load()+st.ignoredSent.Load() > 0 {
		tags = "nt"
	}
	return vlib.Res{Impl: impl, Oracle: or, Tags: tags}
}
