//go:build verif

package main

import (
	"bytes"
	"encoding/binary"
	"net"
	"strings"

	"github.com/miekg/dns"
	"github.com/semihalev/sdns/middleware"
)

// The scripted handler of the function-level rigs. Its behaviour is a pure
// function of the request bytes (that is the model's notion of a handler:
// "output is a function of this request only"):
//
//	raw[0:12]  DNS header (must pass the engine's header admission to get here)
//	raw[12]%10 kind      raw[13] rep      raw[14:] payload
//
//	reply = raw[0:2] ++ [0x80|kind, entry] ++ rep × payload        entry: raw=0 inline=1 replay=2
const (
	kNone = iota
	kWrite
	kLease
	kPanic
	kDecline
	kHandoff
	kLeaseAbandon
	kWritePanic
	kWriteMsg
	kWrite9
)

func entryCode(entry string) byte {
	switch entry {
	case "inline":
		return 1
	case "replay":
		return 2
	}
	return 0
}

func progKind(raw []byte) int {
	if len(raw) < 14 {
		return kNone
	}
	return int(raw[12]) % 10
}

func progReply(raw []byte, entry byte) []byte {
	kind := progKind(raw)
	out := []byte{raw[0], raw[1], 0x80 | byte(kind), entry}
	rep := int(raw[13])
	for i := 0; i < rep; i++ {
		out = append(out, raw[14:]...)
	}
	return out
}

func scripted(w middleware.Transport, raw []byte, entry string) bool {
	kind := progKind(raw)
	ec := entryCode(entry)
	switch kind {
	case kNone:
		return true
	case kWrite:
		_, _ = w.Write(progReply(raw, ec))
	case kWrite9:
		_ = w.WriteMsg(progMsgC(raw))
	case kLease:
		reply := progReply(raw, ec)
		var buf []byte
		if l, ok := w.(middleware.WireTransportLeaser); ok {
			buf = l.LeaseWire(len(reply))
		}
		if buf == nil {
			_, _ = w.Write(reply)
			return true
		}
		buf = append(buf, reply...)
		_, _ = w.Write(buf)
	case kPanic:
		panic("c10: scripted handler panic")
	case kDecline:
		return false
	case kHandoff:
		if entry == "inline" {
			return false
		}
		_, _ = w.Write(progReply(raw, ec))
	case kLeaseAbandon:
		reply := progReply(raw, ec)
		if l, ok := w.(middleware.WireTransportLeaser); ok {
			if buf := l.LeaseWire(len(reply)); buf != nil {
				_ = append(buf, reply...)
			}
		}
	case kWritePanic:
		_, _ = w.Write(progReply(raw, ec))
		panic("c10: scripted handler panic after write")
	case kWriteMsg:
		_ = w.WriteMsg(progMsg(raw))
	}
	return true
}

// progMsgC is the COMPRESSIBLE Msg-path reply (kind 9): raw[13] A records under
// one 50-octet owner label, Compress set — 12+66k bytes uncompressed (what
// PackBuffer sizes its buffer by), 12+66+16(k-1) packed.
func progMsgC(raw []byte) *dns.Msg {
	m := new(dns.Msg)
	m.Id = binary.BigEndian.Uint16(raw[0:2])
	m.Response = true
	m.Compress = true
	fill := byte(0)
	if len(raw) > 14 {
		fill = raw[14]
	}
	owner := strings.Repeat("q", 50) + "."
	for i := 0; i < int(raw[13]); i++ {
		m.Answer = append(m.Answer, &dns.A{Hdr: dns.RR_Header{Name: owner, Rrtype: dns.TypeA, Class: dns.ClassINET, Ttl: 60},
			A: net.IPv4(10, byte(i), fill, 7)})
	}
	return m
}

// progMsg is the message the WriteMsg kind hands to the transport: raw[13]
// TXT records "x. 60 IN TXT <255 x fill>", fill = 'a' + raw[14]%26 (12 + 269k
// bytes packed: the Msg path for replies of any size).
func progMsg(raw []byte) *dns.Msg {
	m := new(dns.Msg)
	m.Id = binary.BigEndian.Uint16(raw[0:2])
	m.Response = true
	fill := byte('a')
	if len(raw) > 14 {
		fill = 'a' + raw[14]%26
	}
	for i := 0; i < int(raw[13]); i++ {
		m.Answer = append(m.Answer, &dns.TXT{Hdr: dns.RR_Header{Name: "x.", Rrtype: dns.TypeTXT, Class: dns.ClassINET, Ttl: 60},
			Txt: []string{strings.Repeat(string(rune(fill)), 255)}})
	}
	return m
}

// ---- the independent judge -------------------------------------------------
//
// ownReply decides, from the property text alone, whether `got` is an
// acceptable reply to the packet `sent` of the same client: the scripted
// reply of that very packet (the entry byte is not the client's business),
// or the bare 12-byte rejection that echoes its id (QR set, rcode FORMERR or
// NOTIMP). It never consults the engine.
func ownReply(sent, got []byte) bool {
	if len(sent) < 12 || sent[2]&0x80 != 0 {
		return false // unparseable / a response: any reply is a violation
	}
	if len(got) == 12 && got[0] == sent[0] && got[1] == sent[1] && got[2]&0x80 != 0 &&
		(got[3]&0xF == dns.RcodeFormatError || got[3]&0xF == dns.RcodeNotImplemented) &&
		bytes.Equal(got[4:], make([]byte, 8)) && (got[2]>>3)&0xF == (sent[2]>>3)&0xF {
		return true
	}
	if len(sent) < 14 {
		return false
	}
	switch progKind(sent) {
	case kNone, kPanic, kLeaseAbandon, kDecline:
		return false
	case kWriteMsg:
		want, err := progMsg(sent).Pack()
		return err == nil && bytes.Equal(got, want)
	case kWrite9:
		want, err := progMsgC(sent).Pack()
		return err == nil && bytes.Equal(got, want)
	}
	want := progReply(sent, 0)
	if len(got) != len(want) {
		return false
	}
	for i := range want {
		if i != 3 && got[i] != want[i] {
			return false
		}
	}
	return got[3] <= 2
}
