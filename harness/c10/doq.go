//go:build verif

// DNS-over-QUIC: the repository's doq.Server (handleConnection /
// handleStream / ResponseWriter) over the live Server, driven by a quic-go
// client that multiplexes several streams on ONE connection. (The approach is
// the one harness/c06/doq.go uses for a single exchange.)
package main

import (
	"context"
	"crypto/ecdsa"
	"crypto/elliptic"
	"crypto/rand"
	"crypto/tls"
	"crypto/x509"
	"crypto/x509/pkix"
	"encoding/binary"
	"fmt"
	"io"
	"math/big"
	"net"
	"strings"
	"sync"
	"time"

	"github.com/miekg/dns"
	"github.com/quic-go/quic-go"
	"github.com/semihalev/sdns/internal/verif/srvh"
	"github.com/semihalev/sdns/internal/verif/vlib"
	"github.com/semihalev/sdns/server/doq"
)

var doqCert *tls.Certificate

func selfSigned() tls.Certificate {
	if doqCert != nil {
		return *doqCert
	}
	priv, err := ecdsa.GenerateKey(elliptic.P256(), rand.Reader)
	if err != nil {
		panic(err)
	}
	tmpl := x509.Certificate{SerialNumber: big.NewInt(10), Subject: pkix.Name{Organization: []string{"c10"}},
		NotBefore: time.Now().Add(-time.Hour), NotAfter: time.Now().Add(24 * time.Hour),
		KeyUsage: x509.KeyUsageDigitalSignature, ExtKeyUsage: []x509.ExtKeyUsage{x509.ExtKeyUsageServerAuth},
		DNSNames: []string{"localhost"}, BasicConstraintsValid: true}
	der, err := x509.CreateCertificate(rand.Reader, &tmpl, &tmpl, &priv.PublicKey, priv)
	if err != nil {
		panic(err)
	}
	c := tls.Certificate{Certificate: [][]byte{der}, PrivateKey: priv}
	doqCert = &c
	return c
}

type doqFront struct {
	l   *srvh.Live
	srv *doq.Server
	pc  net.PacketConn
}

// gates: a query whose name is registered here is held inside the handler
// (the stub's Delay hook) until its gate is closed — handler-ordered completion.
var (
	gateMu sync.Mutex
	gates  = map[string]chan struct{}{}
)

func gatedDelay(req *dns.Msg) time.Duration {
	name := strings.ToLower(req.Question[0].Name)
	gateMu.Lock()
	g := gates[name]
	gateMu.Unlock()
	if g != nil {
		select {
		case <-g:
		case <-time.After(2500 * time.Millisecond):
		}
		return 0
	}
	return stubDelay(req)
}

func startDoQ() *doqFront {
	l := startLive(false, nil)
	l.Stub.Delay = gatedDelay
	pc, err := net.ListenPacket("udp", "127.0.0.1:0")
	if err != nil {
		panic(err)
	}
	srv := &doq.Server{Addr: pc.LocalAddr().String(), Handler: l.Srv}
	cfg := &tls.Config{Certificates: []tls.Certificate{selfSigned()}, MinVersion: tls.VersionTLS13}
	go func() { _ = srv.Serve(pc, cfg) }()
	return &doqFront{l: l, srv: srv, pc: pc}
}

func (d *doqFront) stop() {
	_ = d.srv.Shutdown()
	_ = d.pc.Close()
	d.l.Stop()
}

func (d *doqFront) dial() (*quic.Conn, error) {
	var last error
	for attempt := 0; attempt < 20; attempt++ {
		ctx, cancel := context.WithTimeout(context.Background(), 2*time.Second)
		c, err := quic.DialAddr(ctx, d.srv.Addr, &tls.Config{InsecureSkipVerify: true, NextProtos: []string{"doq"}}, nil)
		cancel()
		if err == nil {
			return c, nil
		}
		last = err
		time.Sleep(5 * time.Millisecond)
	}
	return nil, last
}

// doqStream is one query on its own stream and everything that came back on it.
type doqStream struct {
	raw  []byte
	st   *quic.Stream
	got  []byte
	done chan struct{}
}

func openDoqStream(conn *quic.Conn, raw []byte) (*doqStream, error) {
	ctx, cancel := context.WithTimeout(context.Background(), 2*time.Second)
	st, err := conn.OpenStreamSync(ctx)
	cancel()
	if err != nil {
		return nil, err
	}
	s := &doqStream{raw: raw, st: st, done: make(chan struct{})}
	// DoQ: the query travels with id 0
	q := append([]byte(nil), raw...)
	q[0], q[1] = 0, 0
	msg := append(binary.BigEndian.AppendUint16(nil, uint16(len(q))), q...)
	if _, err := st.Write(msg); err != nil {
		return nil, err
	}
	_ = st.Close() // our sending side: the server reads to EOF
	go func() {
		defer close(s.done)
		_ = st.SetReadDeadline(time.Now().Add(4 * time.Second))
		s.got, _ = io.ReadAll(st)
	}()
	return s, nil
}

// judgeDoqStream: the stream must carry whole frames, at most one, and it must
// be the reply to the query sent on THIS stream (DoQ replies carry id 0).
func judgeDoqStream(i int, s *doqStream, sig string) (verdict string, frames int, own bool) {
	fr, rest := splitFrames(s.got)
	if len(rest) != 0 {
		return fail(sig+"/partial-frame", "stream %d ends inside a frame", i), len(fr), false
	}
	if len(fr) > 1 {
		return fail(sig+"/two-replies-on-one-stream", "stream %d carries %d replies; it sent one query", i, len(fr)), len(fr), false
	}
	if len(fr) == 0 {
		return "ok", 0, false
	}
	b := append([]byte(nil), fr[0]...)
	if len(b) >= 2 && b[0] == 0 && b[1] == 0 {
		b[0], b[1] = s.raw[0], s.raw[1] // RFC 9250: id 0 on the wire stands for this stream's query
	}
	if why := whyNotOwn(s.raw, b); why != "" {
		return fail(sig+"/reply-of-another-stream", "stream %d (%s): %s", i, nameOfRaw(s.raw), why), 1, false
	}
	return "ok", 1, true
}

var doqSeq int

func execDoQ(f []string) vlib.Res {
	switch f[1] {
	case "conn":
		// doq conn <completion order, e.g. 2,0,1> <beh per stream, e.g. ok,nr,ok>
		// Streams are opened in index order, each one only after the previous query is inside
		// its handler; the handlers are then released in the given order.
		var order []int
		for _, s := range strings.Split(f[2], ",") {
			order = append(order, vlib.Atoi(s))
		}
		behs := strings.Split(f[3], ",")
		d := startDoQ()
		defer d.stop()
		conn, err := d.dial()
		if err != nil {
			return vlib.Res{Impl: "dial-error", Oracle: "-"}
		}
		defer conn.CloseWithError(0, "")
		doqSeq++
		streams := make([]*doqStream, len(behs))
		names := make([]string, len(behs))
		for i, beh := range behs {
			names[i] = fmt.Sprintf("dq%d-s%d-%s.z.c10.", doqSeq, i, beh)
			if beh[0] == 'a' {
				names[i] = bigName(doqSeq, i, vlib.Atoi(beh[1:]))
			}
			gateMu.Lock()
			gates[names[i]] = make(chan struct{})
			gateMu.Unlock()
		}
		defer func() {
			gateMu.Lock()
			for _, n := range names {
				delete(gates, n)
			}
			gateMu.Unlock()
		}()
		for i := range behs {
			before := d.l.Stub.Calls.Load()
			q := mkQuery(uint16(0x4000+i*3), names[i], true)
			if behs[i][0] == 'a' {
				q = retype(q, dns.TypeA)
			}
			s, err := openDoqStream(conn, q)
			if err != nil {
				return vlib.Res{Impl: "stream-error", Oracle: "-"}
			}
			streams[i] = s
			for t := time.Now(); d.l.Stub.Calls.Load() == before && time.Since(t) < 2*time.Second; {
				time.Sleep(200 * time.Microsecond)
			}
		}
		for _, k := range order {
			gateMu.Lock()
			close(gates[names[k]])
			gateMu.Unlock()
			select { // its handler returns, the server closes that stream
			case <-streams[k].done:
			case <-time.After(3 * time.Second):
			}
		}
		or := "ok"
		parts := make([]string, len(streams))
		for i, s := range streams {
			<-s.done
			v, n, own := judgeDoqStream(i, s, "doq/conn")
			if v != "ok" && or == "ok" {
				or = v
			}
			parts[i] = fmt.Sprintf("s%d=%d:%s", i, n, vlib.B(own))
		}
		return vlib.Res{Impl: strings.Join(parts, " "), Oracle: or, Tags: "nt"}
	case "run":
		// doq run <seed> <connections> <streams per connection> <rounds>: free-running
		return doqRun(vlib.AtoU64(f[2]), vlib.Atoi(f[3]), vlib.Atoi(f[4]), vlib.Atoi(f[5]))
	}
	return vlib.Res{Impl: "bad-op"}
}

func doqRun(seed uint64, nconn, nstreams, rounds int) vlib.Res {
	d := startDoQ()
	defer d.stop()
	fb := &failBox{}
	var wg sync.WaitGroup
	var mu sync.Mutex
	sent, replies := 0, 0
	for c := 0; c < nconn; c++ {
		wg.Add(1)
		go func(c int) {
			defer wg.Done()
			r := vlib.NewR(seed*31 + uint64(c))
			conn, err := d.dial()
			if err != nil {
				return
			}
			defer conn.CloseWithError(0, "")
			seq := 0
			for round := 0; round < rounds && fb.get() == ""; round++ {
				var ss []*doqStream
				for k := 0; k < nstreams; k++ {
					seq++
					// earlier streams tend to finish later: a slow miss followed by quick ones / hits
					beh := vlib.Pick(r, []string{fmt.Sprintf("d%d", 2+2*(nstreams-k)), "ok", "ok", "nr", "pn"})
					name := fmt.Sprintf("dq%d-c%d-s%d-%s.z.c10.", seed%100000, c, seq, beh)
					if r.Chance(1, 5) {
						name = fmt.Sprintf("shared%d-d2.z.c10.", r.Intn(3))
					}
					q := mkQuery(uint16(c)<<10|uint16(seq&1023), name, true)
					if r.Chance(1, 6) {
						name = bigName(100+c, seq, vlib.Pick(r, []int{58, 60, 70}))
						q = retype(mkQuery(uint16(c)<<10|uint16(seq&1023), name, true), dns.TypeA)
					}
					s, err := openDoqStream(conn, q)
					if err != nil {
						return
					}
					ss = append(ss, s)
				}
				for i, s := range ss {
					<-s.done
					v, n, _ := judgeDoqStream(i, s, "doq/run")
					if v != "ok" {
						fb.set(sig_of(v), "%s", strings.SplitN(v, " ", 3)[2])
					}
					mu.Lock()
					sent++
					replies += n
					mu.Unlock()
				}
			}
		}(c)
	}
	wg.Wait()
	or := fb.get()
	if or == "" {
		or = "ok"
	}
	tags := ""
	if replies > nconn {
		tags = "nt"
	}
	return vlib.Res{Impl: fmt.Sprintf("done streams=%d replies=%d", sent, replies), Oracle: or, Tags: tags}
}

func sig_of(v string) string {
	for _, f := range strings.Fields(v) {
		if strings.HasPrefix(f, "sig=") {
			return f[4:]
		}
	}
	return "doq/unspecified"
}

// retype rewrites the question type of a packed query.
func retype(raw []byte, t uint16) []byte {
	m := new(dns.Msg)
	if m.Unpack(raw) != nil {
		return raw
	}
	m.Question[0].Qtype = t
	b, _ := m.Pack()
	return b
}
