//go:build verif

package main

import (
	"encoding/binary"
	"fmt"
	"strings"

	"github.com/semihalev/sdns/internal/verif/vlib"
	"github.com/semihalev/sdns/server"
)

// genPacket builds one packet for the scripted rigs: a DNS header that
// mostly passes the engines' admission, then the handler program.
func genPacket(r *vlib.R, id uint16, c int, allowBig bool, big bool) []byte {
	if r.Chance(1, 30) {
		return r.Bytes(r.Intn(12)) // shorter than a header (also the empty datagram)
	}
	h := make([]byte, 12)
	binary.BigEndian.PutUint16(h, id)
	h[2] = vlib.Pick(r, []byte{0x00, 0x01, 0x01, 0x01, 0x20, 0x21})
	h[3] = vlib.Pick(r, []byte{0x00, 0x10, 0x20})
	qd, an, ns, ar := uint16(1), uint16(0), uint16(0), uint16(0)
	switch r.Intn(24) {
	case 0:
		h[2] |= 0x80 // a response: ignored
	case 1:
		h[2] = vlib.Pick(r, []byte{0x08, 0x10, 0x28, 0x29, 0x78}) // foreign opcode: NOTIMP
	case 2:
		qd = vlib.Pick(r, []uint16{0, 2})
	case 3:
		an = vlib.Pick(r, []uint16{1, 2})
	case 4:
		ns = vlib.Pick(r, []uint16{1, 2})
	case 5:
		ar = vlib.Pick(r, []uint16{1, 2, 3})
	}
	binary.BigEndian.PutUint16(h[4:], qd)
	binary.BigEndian.PutUint16(h[6:], an)
	binary.BigEndian.PutUint16(h[8:], ns)
	binary.BigEndian.PutUint16(h[10:], ar)
	if r.Chance(1, 40) {
		return h // header only: no program
	}
	kind := vlib.Pick(r, []byte{kWrite, kWrite, kWrite, kLease, kLease, kLease, kNone, kNone, kPanic, kDecline, kHandoff, kHandoff, kLeaseAbandon, kWritePanic, kWriteMsg, kWrite9})
	kind += byte(10 * r.Intn(3))
	rep := byte(r.Intn(4))
	payload := append([]byte{byte(c), byte(id >> 8), byte(id)}, r.Bytes(r.Intn(24))...)
	if big {
		// replies around the buffer-class boundaries
		payload = append(payload, r.Bytes(61)...)
		rep = vlib.Pick(r, []byte{63, 64, 65, 66, 127, 128, 129, 255})
	}
	if kind%10 == kWrite9 {
		// compressible Msg-path reply: uncompressed 12+66k around 4096 (k=61,62,63), far above it with a small packed form
		rep = vlib.Pick(r, []byte{0, 1, 20, 61, 62, 63, 70, 70, 100, 200, 255})
	}
	if kind%10 == kWriteMsg {
		// the Msg path: 12 + 269*rep bytes, around the drain buffer (8192), the small slab (16382) and 64k
		rep = vlib.Pick(r, []byte{0, 1, 2, 15, 16, 30, 31, 32, 45, 60, 61, 120, 243, 244, 255})
	}
	p := append(h, kind, rep)
	p = append(p, payload...)
	if allowBig && r.Chance(1, 50) {
		p = append(p, r.Bytes(vlib.Pick(r, []int{4096 - len(p) - 1, 4096 - len(p), 4096 - len(p) + 1, 5000}))...)
	}
	return p
}

func genUDPCase(r *vlib.R, emit func(string)) int {
	n := 0
	e := func(s string) { emit(s); n++ }
	inline := r.Chance(1, 2)
	mix := r.Chance(1, 3) // portable reads allowed (no oversize datagrams, default cap)
	slabCap := 0
	if !mix && r.Chance(1, 4) {
		slabCap = 1 + r.Intn(5)
	}
	mode := "ring"
	if inline {
		mode = "inline"
	}
	if r.Chance(1, 3) {
		mode = "w" + mode // wildcard bind: every reply leaves with the pktinfo of its own read
	}
	e(fmt.Sprintf("udp new %s %d %02x", mode, slabCap, vlib.Pick(r, []int{0xa5, 0xff, 0x5a, 0x01, 0x80})))
	id := uint16(r.Intn(60000))
	queued := 0
	steps := 6 + r.Intn(24)
	for i := 0; i < steps; i++ {
		switch k := r.Intn(12); {
		case k < 5:
			burst := 1 + r.Intn(4)
			for b := 0; b < burst; b++ {
				id++
				c := r.Intn(nClients - 1)
				big := r.Chance(1, 25)
				e(fmt.Sprintf("udp send %d %s", c, vlib.Hex(genPacket(r, id, c, !mix, big))))
				queued++
			}
		case k < 8:
			if r.Chance(1, 4) {
				// what the kernel will do with the next sendmmsg calls: partial sends, a refusal, a retirement
				var pl []string
				for j, m := 0, 1+r.Intn(4); j < m; j++ {
					pl = append(pl, vlib.Pick(r, []string{"1", "1", "2", "3", "5", "x", "r"}))
				}
				e("udp txplan " + strings.Join(pl, ","))
			}
			if queued == 0 {
				continue
			}
			if mix && r.Chance(1, 2) {
				e("udp read portable")
				queued = 0
			} else {
				m := vlib.Pick(r, []int{1, 2, 3, 8, 16, 16, 16})
				e(fmt.Sprintf("udp read batch %d", m))
				if m > queued {
					m = queued
				}
				queued -= m
			}
		case k < 11:
			if r.Chance(1, 10) {
				e("udp serve overflow")
			} else {
				e("udp serve")
			}
		default:
			e("udp flush")
		}
	}
	e("udp drain")
	e("udp end")
	return n
}

func frame(p []byte) []byte {
	return append(binary.BigEndian.AppendUint16(nil, uint16(len(p))), p...)
}

func genStream(r *vlib.R, nframes int, idBase uint16) []byte {
	var s []byte
	for i := 0; i < nframes; i++ {
		id := idBase + uint16(i)
		big := r.Chance(1, 6)
		p := genPacket(r, id, 1, false, big)
		if len(p) < 12 && r.Chance(3, 4) {
			p = genPacket(r, id, 1, false, false)
		}
		if r.Chance(1, 12) {
			// a large-class frame (> 2048 bytes)
			p = append(p, r.Bytes(vlib.Pick(r, []int{2048 - len(p), 2049 - len(p), 2300, 4200}))...)
		}
		s = append(s, frame(p)...)
	}
	switch r.Intn(10) {
	case 0:
		s = append(s, 0x00) // half a prefix
	case 1:
		s = append(s, 0x00, 0x40, 1, 2, 3) // a frame that never completes
	}
	return s
}

// scriptedPkt is a well-formed scripted query whose reply is exactly
// 4 + rep*len(payload) bytes long.
func scriptedPkt(id uint16, kind, rep byte, payload []byte) []byte {
	h := []byte{byte(id >> 8), byte(id), 0x01, 0, 0, 1, 0, 0, 0, 0, 0, 0, kind, rep}
	return append(h, payload...)
}

// genBoundaryStream pipelines small queries (the whole burst fits one read, so
// nothing is flushed in between) whose replies fill the connection's drain
// buffer to exactly drain+delta bytes with the last-but-one reply; a small
// reply follows. Every value of delta around 0 is a different branch of
// tcpStream.stage's "flush first?" arithmetic.
func genBoundaryStream(r *vlib.R, drain, delta int, idBase uint16) []byte {
	var s []byte
	held := 0
	id := idBase
	add := func(kind, rep byte, payload []byte) {
		id++
		s = append(s, frame(scriptedPkt(id, kind, rep, payload))...)
		held += 2 + 4 + int(rep)*len(payload)
	}
	kinds := []byte{kWrite, kLease, kWrite}
	for k, n := 0, 1+r.Intn(3); k < n; k++ {
		// leave between 30 and 300 bytes for the filler
		room := drain + delta - held - 2 - 4
		if room < 400 {
			break
		}
		share := (room - 30 - r.Intn(260)) / (n - k)
		if k < n-1 {
			share = share/2 + r.Intn(share/2+1)
		}
		pl := 20 + r.Intn(20)
		rep := share / pl
		if rep > 255 {
			rep = 255
		}
		if rep < 1 {
			rep = 1
		}
		add(vlib.Pick(r, kinds), byte(rep), r.Bytes(pl))
	}
	for drain+delta-held-2-4 > 300 { // still too far: add mid-size replies
		add(kWrite, 10, r.Bytes(25))
	}
	fill := drain + delta - held - 2 - 4
	if fill < 0 {
		fill = 0
	}
	add(vlib.Pick(r, kinds), 1, r.Bytes(fill)) // staged total is now exactly drain+delta
	add(kWrite, 1, r.Bytes(3+r.Intn(20)))
	if r.Chance(1, 2) {
		add(kLease, 2, r.Bytes(5+r.Intn(30)))
	}
	if r.Chance(1, 2) {
		// a Msg-path reply larger than the drain buffer behind replies that are still staged
		add(kWriteMsg, vlib.Pick(r, []byte{31, 40, 60, 61}), r.Bytes(2))
		add(kWrite, 1, r.Bytes(4))
	}
	return s
}

func genChunks(r *vlib.R) string {
	if r.Chance(1, 3) {
		return "-"
	}
	var parts []string
	for i, k := 0, 1+r.Intn(12); i < k; i++ {
		parts = append(parts, fmt.Sprint(vlib.Pick(r, []int{1, 1, 2, 3, 13, 14, 15, 40, 300, 4095, 4096, 4097})))
	}
	return strings.Join(parts, ",")
}

func gen(r *vlib.R, n int, tier string, emit func(string)) {
	thorough := tier == "thorough"
	// 1. small deterministic families first
	for _, m1 := range []string{"msg", "wire"} {
		for _, act := range []string{"none", "msg", "wire", "panic", "handoff", "wrap", "cut", "mat"} {
			for _, fin := range []string{"t", "f"} {
				for _, m2 := range []string{"msg", "wire"} {
					if thorough || r.Chance(1, 2) {
						emit(fmt.Sprintf("chain run %s %s %s %s", m1, act, fin, m2))
						n--
					}
				}
			}
		}
	}
	for i := 0; i < 60; i++ {
		size := vlib.Pick(r, []int{0, 1, 12, 100, 512, 1232, 4000, 4096, 4097, 16382, 16383, 65535})
		reserve := vlib.Pick(r, []int{0, 11, 23, 64})
		need := size + reserve
		avail := vlib.Pick(r, []int{-2, -1, 0, need - 1, need, need + 1, 4096, 16382, 65535, need + 1000})
		if avail < -2 {
			avail = 0
		}
		emit(fmt.Sprintf("lease begin %d %d %d %s", avail, size, reserve, vlib.B(r.Chance(1, 8))))
		n--
	}
	for _, c := range []int{0, 1, 4095, 4096, 4097, 16382, 16383, 65535, 65536} {
		emit(fmt.Sprintf("lease udpjob %d", c))
		emit(fmt.Sprintf("lease tcpjob f %d", c))
		emit(fmt.Sprintf("lease tcpjob t %d", c))
		n -= 3
	}
	for _, k := range []int{0, 1, 3, 20} {
		emit(fmt.Sprintf("lease pack %d", k))
		n--
	}
	for i := 0; i < 6; i++ {
		pat := make([]byte, 2+r.Intn(10))
		for j := range pat {
			pat[j] = vlib.Pick(r, []byte{'w', 'w', 'n', 'n', 'e', 'e'})
		}
		if i == 0 {
			pat = []byte("wenwn")
		}
		emit("pool subq " + string(pat))
		n--
	}
	// 2. shared upstream lookups
	shares := 2
	if thorough {
		shares = 12
	}
	for i := 0; i < shares; i++ {
		k := 2 + r.Intn(7)
		ids := make([]string, k)
		for j := range ids {
			ids[j] = fmt.Sprint(1 + r.Intn(65535))
		}
		emit(fmt.Sprintf("share run %d %s %s", 20+r.Intn(20), strings.Join(ids, ","), vlib.B(i%2 == 1)))
		n--
	}
	// 2b. the same, end to end: DNSSEC + QNAME minimisation, different names under one nonexistent
	// signed parent, the root holding the shared minimised probe
	walks := 1
	if thorough {
		walks = 4
	}
	for i := 0; i < walks; i++ {
		k := 2 + r.Intn(3)
		ids := make([]string, k)
		for j := range ids {
			ids[j] = fmt.Sprint(1 + r.Intn(65535))
		}
		emit(fmt.Sprintf("share walk %d %s", 250+r.Intn(100), strings.Join(ids, ",")))
		n--
	}
	// 2f. transports that keep the reply message after the serve (DoH): pooled chains, shared view records
	rts := 5
	if thorough {
		rts = 25
	}
	for i := 0; i < rts; i++ {
		var ks []string
		for j, k := 0, 4+r.Intn(14); j < k; j++ {
			ks = append(ks, vlib.Pick(r, []string{"ok", "ok", "hit", "pn", "pn", "nr", "vx", "vx", "vw", "sh", "big", "ck", "lie"}))
		}
		if i == 0 {
			ks = []string{"pn", "pn", "vx", "vx", "ok", "ck", "lie", "big", "big"}
		}
		emit(fmt.Sprintf("retain seq %d %s", r.U64()%1000000, strings.Join(ks, ",")))
		n--
	}
	// 2h. upstream read buffers: runts, garbage and good messages, then several holders at once
	for i := 0; i < 6; i++ {
		var ts []string
		for j, k := 0, 1+r.Intn(6); j < k; j++ {
			kind := vlib.Pick(r, []string{"r", "r", "v"})
			n := vlib.Pick(r, []int{0, 1, 5, 11, 12, 13, 40, 600, 2000})
			if kind == "v" {
				n = 0
			}
			ts = append(ts, vlib.Pick(r, []string{"t", "u"})+kind+fmt.Sprint(n))
		}
		if i == 0 {
			ts = []string{"ur5", "tr3"}
		}
		emit("upool read " + strings.Join(ts, ","))
		n--
	}
	// 2e. decoded entry: escaped panics, then overlapping requests on the pooled chains
	for i := 0; i < 2; i++ {
		emit(fmt.Sprintf("pool escape %d %d", r.U64()%1000000, 4+r.Intn(5)))
		n--
	}
	// 2d. failover (fallbackservers configured): every outcome mix of up to 3 fallback servers
	fos := 14
	if thorough {
		fos = 60
	}
	for i := 0; i < fos; i++ {
		k := r.Intn(4)
		var ms []string
		for j := 0; j < k; j++ {
			ms = append(ms, vlib.Pick(r, []string{"sf", "sf", "sf", "ok", "nx", "dead"}))
		}
		modes := "-"
		if k > 0 {
			modes = strings.Join(ms, ",")
		}
		emit(fmt.Sprintf("fo run %d %s %d %s %s", 1+r.Intn(65535), vlib.B(r.Chance(5, 6)), vlib.Pick(r, []int{2, 2, 2, 2, 0, 3}), modes, vlib.Pick(r, []string{"udp", "tcp"})))
		n--
	}
	// 2g. forwarder: UDP / dead / failing-DoH upstreams in every order
	fws := 8
	if thorough {
		fws = 40
	}
	for i := 0; i < fws; i++ {
		var ms []string
		for j, k := 0, 1+r.Intn(3); j < k; j++ {
			ms = append(ms, vlib.Pick(r, []string{"sf", "ok", "nx", "dead", "dohdead", "dohdead", "dohtls"}))
		}
		if i == 0 {
			ms = []string{"dohdead", "ok"}
		}
		if i == 1 {
			ms = []string{"dohtls", "sf"}
		}
		emit(fmt.Sprintf("fw run %d %s %s", 1+r.Intn(65535), strings.Join(ms, ","), vlib.Pick(r, []string{"udp", "tcp"})))
		n--
	}
	// 2c. DoQ: several streams on one connection, handlers released in a scripted order
	doqs := 5
	if thorough {
		doqs = 30
	}
	for i := 0; i < doqs; i++ {
		k := 2 + r.Intn(4)
		order := make([]int, k)
		for j := range order {
			order[j] = j
		}
		for j := k - 1; j > 0; j-- {
			x := r.Intn(j + 1)
			order[j], order[x] = order[x], order[j]
		}
		if i == 0 {
			for j := range order { // the earliest query finishes last
				order[j] = k - 1 - j
			}
		}
		var os, bs []string
		for j := range order {
			os = append(os, fmt.Sprint(order[j]))
			bs = append(bs, vlib.Pick(r, []string{"ok", "ok", "ok", "a70", "a60", "nr", "pn"}))
		}
		emit(fmt.Sprintf("doq conn %s %s", strings.Join(os, ","), strings.Join(bs, ",")))
		n--
	}
	for i := 0; i < 1+doqs/10; i++ {
		emit(fmt.Sprintf("doq run %d %d %d %d", r.U64()%1000000, 3+r.Intn(3), 3+r.Intn(4), 6))
		n--
	}
	// 3. the real Server behind the single-stepped engines
	srvRuns := 4
	if thorough {
		srvRuns = 20
	}
	for i := 0; i < srvRuns; i++ {
		emit(fmt.Sprintf("usrv run %d %d %02x", r.U64()%1000000, 40+r.Intn(60), vlib.Pick(r, []int{0xa5, 0xff, 0x33})))
		emit(fmt.Sprintf("tsrv run %d %d %02x", r.U64()%1000000, 3+r.Intn(14), vlib.Pick(r, []int{0xa5, 0xff, 0x33})))
		n -= 2
	}
	for i := 0; i < 6; i++ {
		pat := make([]byte, 2+r.Intn(8))
		for j := range pat {
			pat[j] = vlib.Pick(r, []byte{'c', 'n', 'n', 'p', 's', 's'})
		}
		if i < 2 {
			pat = []byte("cncs")
		}
		emit(fmt.Sprintf("usrv cookie %s %s", vlib.Pick(r, []string{"udp", "tcp"}), pat))
		n--
	}
	for i := 0; i < 6; i++ {
		var ks []string
		for j, k := 0, 2+r.Intn(5); j < k; j++ {
			ks = append(ks, vlib.Pick(r, []string{"ok", "cn", "cnseed", "cnseed", "big", "v6nx", "v6sf", "v6nd", "v6ok"}))
		}
		if i < 2 {
			ks = []string{"cnseed", "cn", "v6nx", "ok", "v6sf", "v6nd", "v6ok"}
		}
		emit(fmt.Sprintf("usrv spell %s %d %s", []string{"udp", "tcp"}[i%2], r.U64()%1000000, strings.Join(ks, ",")))
		n--
	}
	for i := 0; i < 6; i++ {
		pat := make([]byte, 2+r.Intn(8))
		for j := range pat {
			pat[j] = vlib.Pick(r, []byte{'c', 'c', 'c', 'n', 'p', 's'})
		}
		if i < 2 {
			pat = []byte("ccnc")
		}
		emit(fmt.Sprintf("usrv rl %s %s", []string{"udp", "msg"}[i%2], pat))
		n--
	}
	for i := 0; i < 8; i++ {
		var ops []string
		for j, k := 0, 3+r.Intn(14); j < k; j++ {
			ops = append(ops, vlib.Pick(r, []string{"p", "p", "p", "q", "q"})+fmt.Sprint(1+r.Intn(6)))
			if r.Chance(1, 5) {
				ops = append(ops, vlib.Pick(r, []string{"r", "v", "w"}))
			}
		}
		emit("carrier run " + strings.Join(ops, ","))
		n--
	}
	// 4a. stream bursts whose staged replies end within a few bytes of the drain-buffer size
	drain := server.VerifC10Sizes()["tcp_drain"]
	for delta := -5; delta <= 5; delta++ {
		for rep := 0; rep < 2; rep++ {
			emit(fmt.Sprintf("tcp conn %02x %s %s", vlib.Pick(r, []int{0xa5, 0xff, 0x5a}), vlib.Pick(r, []string{"-", "-", "4096"}),
				vlib.Hex(genBoundaryStream(r, drain, delta, uint16(r.Intn(60000))))))
			n--
		}
	}
	// 4b. a client that stops reading: one drain write times out partway, on a flush whose error
	// the caller swallows (the displacing flush inside stage)
	stalls := 10
	if thorough {
		stalls = 60
	}
	for i := 0; i < stalls; i++ {
		var st []byte
		id := uint16(r.Intn(60000))
		for j, k := 0, 5+r.Intn(5); j < k; j++ {
			id++
			pl := 20 + r.Intn(18)
			st = append(st, frame(scriptedPkt(id, vlib.Pick(r, []byte{kWrite, kLease}), byte(40+r.Intn(60)), r.Bytes(pl)))...)
		}
		emit(fmt.Sprintf("tcp stall %d %d %s", 1+r.Intn(3), vlib.Pick(r, []int{0, 1, 2, 3, 700, 3000, 8000}), vlib.Hex(st)))
		n--
	}
	// 4. scripted engines, model-compared
	for n > 0 {
		switch k := r.Intn(10); {
		case k < 6:
			n -= genUDPCase(r, emit)
		case k < 9:
			emit(fmt.Sprintf("tcp conn %02x %s %s", vlib.Pick(r, []int{0xa5, 0xff, 0x5a}), genChunks(r), vlib.Hex(genStream(r, 1+r.Intn(10), uint16(r.Intn(60000))))))
			n--
		default:
			emit(fmt.Sprintf("tcp abort %d %s %s", 1+r.Intn(3), vlib.Hex(genStream(r, 2+r.Intn(8), 100)), vlib.Hex(genStream(r, 1+r.Intn(6), 200))))
			n--
		}
	}
	// 5. live server, real sockets, many clients (the search for an interleaving)
	runs, nu, nt, per := 6, 24, 8, 400
	if thorough {
		runs, nu, nt, per = 16, 40, 16, 800
	}
	for i := 0; i < runs; i++ {
		emit(fmt.Sprintf("stress run %d %d %d %d %d %d %d", r.U64()%1000000, nu, nt, per,
			vlib.Pick(r, []int{1, 2, 4}), vlib.Pick(r, []int{1, 2, 4}), vlib.Pick(r, []int{2, 3, nt + 2})))
	}
}
