//go:build verif

package main

import (
	"context"
	"fmt"
	"net"
	"strings"
	"sync"
	"time"

	"github.com/miekg/dns"
	"github.com/semihalev/sdns/config"
	"github.com/semihalev/sdns/internal/verif/l3"
	"github.com/semihalev/sdns/internal/verif/srvh"
	"github.com/semihalev/sdns/internal/verif/vlib"
	"github.com/semihalev/sdns/internal/wire"
	"github.com/semihalev/sdns/middleware"
	"github.com/semihalev/sdns/middleware/resolver"
	"github.com/semihalev/sdns/server"
)

// capT is a plain capturing transport. With a slab it also offers LeaseWire.
type capT struct {
	tcp    bool
	port   int
	writes [][]byte
	msgs   []*dns.Msg
	slab   []byte // when non-nil the transport leases slab[off:off] (capacity avail)
	off    int
	avail  int // capacity of the lease it hands out; <0: declines
	leaser bool
}

func (t *capT) LocalAddr() net.Addr { return &net.UDPAddr{IP: net.IPv4(127, 0, 0, 1), Port: 53} }
func (t *capT) RemoteAddr() net.Addr {
	if t.tcp {
		return &net.TCPAddr{IP: net.IPv4(192, 0, 2, 9), Port: 4000 + t.port}
	}
	return &net.UDPAddr{IP: net.IPv4(192, 0, 2, 9), Port: 4000 + t.port}
}
func (t *capT) Close() error { return nil }
func (t *capT) Write(b []byte) (int, error) {
	t.writes = append(t.writes, append([]byte(nil), b...))
	return len(b), nil
}
func (t *capT) WriteMsg(m *dns.Msg) error {
	t.msgs = append(t.msgs, m)
	return nil
}

// leaseT adds the WireTransportLeaser capability.
type leaseT struct{ capT }

func (t *leaseT) LeaseWire(capacity int) []byte {
	if t.avail < 0 {
		return nil
	}
	return t.slab[t.off : t.off : t.off+t.avail]
}

// ---- lease: capacity pinning -------------------------------------------------

func execLease(f []string) vlib.Res {
	switch f[1] {
	case "begin":
		avail, size, reserve := vlib.Atoi(f[2]), vlib.Atoi(f[3]), vlib.Atoi(f[4])
		written := f[5] == "t"
		need := size + reserve
		const off = 7
		t := &leaseT{}
		t.avail = avail
		t.off = off
		t.slab = make([]byte, off+max(avail, 0)+64)
		for i := range t.slab {
			t.slab[i] = 0xA5 // the previous response still sitting in the slab
		}
		var tr middleware.Transport = t
		if avail == -2 {
			tr = &t.capT // a transport without LeaseWire
		}
		buf := middleware.VerifC10BeginWire(tr, size, reserve, written)
		if buf == nil {
			return vlib.Res{Impl: "nil", Oracle: "ok", Tags: "nt"}
		}
		backing := "fresh"
		if cap(buf) > 0 && avail >= 0 && &buf[:1][0] == &t.slab[off] {
			backing = "slab"
		}
		or := "ok"
		// what the property needs from a lease: nothing of the previous occupant is
		// reachable through it, and nothing outside the declared capacity is writable
		for _, x := range buf[:cap(buf)] {
			if backing == "slab" && cap(buf) > need && x == 0xA5 {
				or = fail("lease/residue-reachable-past-declared-capacity", "cap=%d need=%d: reslicing the lease exposes the previous response's tail", cap(buf), need)
				break
			}
		}
		if or == "ok" {
			b := buf
			for i := 0; i < need+1; i++ {
				b = append(b, 0xEE)
			}
			if backing == "slab" && t.slab[off+need] != 0xA5 {
				or = fail("lease/append-past-reserve-writes-slab", "appending need+1 bytes wrote into the slab beyond the lease")
			}
		}
		return vlib.Res{Impl: fmt.Sprintf("len=%d cap=%d backing=%s", len(buf), cap(buf), backing), Oracle: or, Tags: "nt"}
	case "udpjob":
		isNil, ln, cp := server.VerifC10UDPLease(vlib.Atoi(f[2]))
		if isNil {
			return vlib.Res{Impl: "nil", Oracle: "-"}
		}
		return vlib.Res{Impl: fmt.Sprintf("len=%d cap=%d", ln, cp), Oracle: "-"}
	case "tcpjob":
		isNil, ln, cp := server.VerifC10TCPLease(f[2] == "t", vlib.Atoi(f[3]))
		if isNil {
			return vlib.Res{Impl: "nil", Oracle: "-"}
		}
		return vlib.Res{Impl: fmt.Sprintf("len=%d cap=%d", ln, cp), Oracle: "-"}
	case "pack":
		n := vlib.Atoi(f[2])
		m := new(dns.Msg)
		m.SetQuestion("pack.c10.test.", dns.TypeTXT)
		m.Response = true
		for i := 0; i < n; i++ {
			m.Answer = append(m.Answer, &dns.TXT{Hdr: dns.RR_Header{Name: "pack.c10.test.", Rrtype: dns.TypeTXT, Class: dns.ClassINET, Ttl: 60},
				Txt: []string{strings.Repeat("x", 1+i%200)}})
		}
		ln, cp := -1, -1
		handled, _ := wire.TryPack(m, func(body []byte) error { ln, cp = len(body), cap(body); return nil })
		or := "ok"
		if handled && ln != cp {
			or = fail("lease/trypack-capacity-exposes-pool-tail", "len=%d cap=%d", ln, cp)
		}
		return vlib.Res{Impl: fmt.Sprintf("handled=%s pinned=%s", vlib.B(handled), vlib.B(ln == cp)), Oracle: or, Tags: "nt"}
	}
	return vlib.Res{Impl: "bad-op"}
}

// ---- chain: Reset / ResetWire / Finish residue ------------------------------

type chainAct struct{ act string }

type wrapW struct{ middleware.ResponseWriter }

func (h *chainAct) Name() string { return "c10act" }
func (h *chainAct) ServeDNS(ctx context.Context, ch *middleware.Chain) {
	reply := func() *dns.Msg {
		m := new(dns.Msg)
		m.Id = ch.Request.ID()
		m.Response = true
		m.Rcode = dns.RcodeServerFailure
		return m
	}
	switch h.act {
	case "none":
	case "msg":
		_ = ch.Writer.WriteMsg(reply())
	case "wire":
		b, _ := reply().Pack()
		if ww, ok := ch.Writer.(middleware.WireWriter); ok {
			_ = ww.WriteWire(b, middleware.WireInfo{Rcode: dns.RcodeNameError})
		}
	case "panic":
		panic("c10: chain handler panic")
	case "handoff":
		ch.MarkHandoff()
	case "wrap":
		ch.Writer = &wrapW{ch.Writer}
		_ = ch.Writer.WriteMsg(reply())
		panic("c10: panic past the writer restore")
	case "cut":
		ch.Meta.BoundCut(time.Now().Add(time.Hour))
		_ = ch.Writer.WriteMsg(reply())
	case "mat":
		ctx, _ = ch.Materialize(ctx)
		_ = ctx
	}
}

var chainStorage [2]middleware.Request

func chainQuery(id uint16) (*dns.Msg, []byte) {
	m := new(dns.Msg)
	m.SetQuestion("chain.c10.test.", dns.TypeA)
	m.Id = id
	raw, _ := m.Pack()
	return m, raw
}

func execChain(f []string) vlib.Res {
	// chain run <mode1> <act> <finish t/f> <mode2>
	mode1, act, fin, mode2 := f[2], f[3], f[4] == "t", f[5]
	h := &chainAct{act: act}
	ch := middleware.NewChain([]middleware.Handler{h})
	w1, w2 := &capT{port: 1}, &capT{port: 2, tcp: true}
	m1, raw1 := chainQuery(0x1111)
	m2, raw2 := chainQuery(0x2222)
	trs := []middleware.Transport{w1, w2}
	msgs := []*dns.Msg{m1, m2}
	bind := func(c *middleware.Chain, mode string, w middleware.Transport, m *dns.Msg, raw []byte, slot int) {
		if mode == "wire" {
			chainStorage[slot] = middleware.Request{}
			chainStorage[slot].ParseWire(raw, time.Now(), nil)
			c.ResetWire(w, &chainStorage[slot])
		} else {
			c.Reset(w, m)
		}
	}
	bind(ch, mode1, w1, m1, raw1, 0)
	ch.AllowDirectPack()
	ch.SetInlineOnly()
	ch.SetReplay()
	func() {
		defer func() { _ = recover() }()
		ch.Next(context.Background())
	}()
	if fin {
		ch.Finish()
	}
	s1 := middleware.VerifC10ChainState(ch, trs, msgs)
	bind(ch, mode2, w2, m2, raw2, 1)
	s2 := middleware.VerifC10ChainState(ch, trs, msgs)

	// the judge: a recycled chain must be indistinguishable from a new one
	fresh := middleware.NewChain([]middleware.Handler{h})
	bind(fresh, mode2, w2, m2, raw2, 1)
	sf := middleware.VerifC10ChainState(fresh, trs, msgs)
	or := "ok"
	if s2 != sf {
		a, b := strings.Fields(s2), strings.Fields(sf)
		diff := "?"
		for i := range a {
			if i < len(b) && a[i] != b[i] {
				diff = strings.SplitN(b[i], "=", 2)[0]
				break
			}
		}
		or = fail("chain/reset-residue/"+diff, "recycled=%q fresh=%q", s2, sf)
	}
	if or == "ok" {
		// and a reply written now reaches the second client only, once
		nw1 := len(w1.writes) + len(w1.msgs)
		rep := new(dns.Msg)
		rep.SetReply(m2)
		err := ch.Writer.WriteMsg(rep)
		if err != nil {
			or = fail("chain/reset-residue/written", "the recycled chain refuses the next client's reply: %v", err)
		} else if len(w1.writes)+len(w1.msgs) != nw1 {
			or = fail("chain/reply-to-previous-writer", "the second request's reply went to the first client's transport")
		} else if len(w2.writes)+len(w2.msgs) != 1 {
			or = fail("chain/reply-lost", "the second request's reply did not reach its transport")
		}
	}
	return vlib.Res{Impl: strings.ReplaceAll(s1, " ", ";") + " " + strings.ReplaceAll(s2, " ", ";"), Oracle: or, Tags: "nt"}
}

// ---- share: Resolver.groupLookup under concurrent identical lookups ------------

func execShare(f []string) vlib.Res {
	if f[1] == "walk" {
		return execShareWalk(f)
	}
	// share run <delay-ms> <id,id,...> <owned t/f>
	owned := len(f) > 4 && f[4] == "t"
	delay := time.Duration(vlib.Atoi(f[2])) * time.Millisecond
	var ids []uint16
	for _, s := range strings.Split(f[3], ",") {
		ids = append(ids, uint16(vlib.Atoi(s)))
	}
	w := l3.NewWorld(false)
	defer w.Close()
	z := w.AddZone("grp.test.", l3.ZoneOpts{})
	z.Add("shared.grp.test. 300 IN TXT \"shared-payload\"", "warm.grp.test. 300 IN A 192.0.2.1")
	p := l3.NewPipe(w, l3.PipeOpts{})
	defer p.Close()
	if r := p.Query("warm.grp.test.", dns.TypeA, l3.Flags{}); r == nil || len(r.Answer) == 0 {
		return vlib.Res{Impl: "warmup-failed", Oracle: "-"}
	}
	q := dns.Question{Name: "shared.grp.test.", Qtype: dns.TypeTXT, Qclass: dns.ClassINET}
	servers := resolver.VerifC10Servers(p.Resolver, q)
	if servers == nil || servers.Zone != "grp.test." {
		return vlib.Res{Impl: "no-delegation", Oracle: "-"}
	}
	srv := z.Servers[0]
	srv.SetBehaviour(l3.Behaviour{Delay: func(dns.Question, bool) time.Duration { return delay }})
	before := srv.UDPQueries.Load() + srv.TCPQueries.Load()

	resps := make([]*dns.Msg, len(ids))
	errs := make([]error, len(ids))
	var wg sync.WaitGroup
	start := make(chan struct{})
	for i := range ids {
		wg.Add(1)
		go func(i int) {
			defer wg.Done()
			req := new(dns.Msg)
			req.SetQuestion(q.Name, q.Qtype)
			req.Id = ids[i]
			req.RecursionDesired = false
			req.SetEdns0(1232, false)
			<-start
			ctx, cancel := context.WithTimeout(context.Background(), 3*time.Second)
			defer cancel()
			resps[i], errs[i] = resolver.VerifC10GroupLookup(ctx, p.Resolver, req, servers, owned)
		}(i)
	}
	close(start)
	wg.Wait()
	upstream := int(srv.UDPQueries.Load() + srv.TCPQueries.Load() - before)

	or := "ok"
	nerr := 0
	got := make([]string, len(ids))
	alias := false
	seen := map[*dns.Msg]int{}
	rrSeen := map[dns.RR]int{}
	for i, r := range resps {
		if errs[i] != nil || r == nil {
			nerr++
			got[i] = "err"
			continue
		}
		got[i] = fmt.Sprint(r.Id)
		if r.Id != ids[i] && or == "ok" {
			or = fail("share/id-of-another-caller", "caller %d (id %d) received a message carrying id %d", i, ids[i], r.Id)
		}
		if j, dup := seen[r]; dup {
			alias = true
			if or == "ok" {
				or = fail("share/aliased-message", "callers %d and %d hold the same *dns.Msg", j, i)
			}
		}
		seen[r] = i
		for _, sec := range [][]dns.RR{r.Answer, r.Ns, r.Extra} {
			for _, rr := range sec {
				if j, dup := rrSeen[rr]; dup && j != i {
					alias = true
					if or == "ok" {
						or = fail("share/aliased-record", "callers %d and %d share a record of the leader's message", j, i)
					}
				}
				rrSeen[rr] = i
			}
		}
		if len(r.Question) != 1 || r.Question[0] != q {
			if or == "ok" {
				or = fail("share/wrong-question", "caller %d: %v", i, r.Question)
			}
		}
	}
	tags := "nt"
	if upstream < len(ids) {
		tags += fmt.Sprintf(",shared%d", len(ids)-upstream)
	}
	return vlib.Res{Impl: fmt.Sprintf("ids=%s alias=%s errs=%d", strings.Join(got, ","), vlib.B(alias), nerr), Oracle: or, Tags: tags}
}

// ---- pool: pooled BufferWriter / chain reuse across internal sub-queries ------------

type subStub struct {
	q middleware.Queryer
}

func (s *subStub) Name() string                    { return "c10sub" }
func (s *subStub) SetQueryer(q middleware.Queryer) { s.q = q }
func (s *subStub) ServeDNS(ctx context.Context, ch *middleware.Chain) {
	req := ch.Request.Msg()
	if req == nil || len(req.Question) == 0 || strings.HasPrefix(req.Question[0].Name, "n") {
		ch.Cancel()
		return // writes nothing
	}
	m := new(dns.Msg)
	m.SetReply(req)
	m.Answer = []dns.RR{&dns.TXT{Hdr: dns.RR_Header{Name: req.Question[0].Name, Rrtype: dns.TypeTXT, Class: dns.ClassINET, Ttl: 5}, Txt: []string{req.Question[0].Name}}}
	_ = ch.Writer.WriteMsg(m)
	if strings.HasPrefix(req.Question[0].Name, "e") {
		// the sub-pipeline captured a response, but it is a marked request-local failure:
		// Query hands its caller the error, not the message
		middleware.MarkRequestLocalFailureResponse(ctx, m, middleware.ErrResolutionAttemptLimit)
	}
	ch.Cancel()
}

// execPoolEscape: the decoded entry (Server.serveMsgBy: pooled chain) after a
// panic that ESCAPES the chain (pipeline without the recovery middleware),
// then requests that overlap in time. Every capturing writer must receive its
// own reply and nothing else.
func execPoolEscape(f []string) vlib.Res {
	seed, rounds := vlib.AtoU64(f[2]), vlib.Atoi(f[3])
	r := vlib.NewR(seed)
	l := srvh.Start(srvh.Opts{Handlers: []string{"edns", "cache"}})
	defer l.Stop()
	l.Stub.Set(stubRespond)
	l.Stub.Delay = gatedDelay
	l.Stub.Panic = stubPanic
	poolSeq++
	mk := func(c, seq int, beh string) (*dns.Msg, []byte) {
		m := new(dns.Msg)
		m.SetQuestion(fmt.Sprintf("pe%d-c%d-s%d-%s.z.c10.", poolSeq, c, seq, beh), dns.TypeTXT)
		m.Id = uint16(c)<<10 | uint16(seq)
		m.SetEdns0(1232, false)
		raw, _ := m.Pack()
		return m, raw
	}
	serve := func(c int, req *dns.Msg) (w *srvh.MsgWriter, escaped bool) {
		defer func() {
			if recover() != nil {
				escaped = true
			}
		}()
		w = l.Msg(req, &net.TCPAddr{IP: net.IPv4(198, 51, 100, byte(c)), Port: 6000 + c}, vlib.Pick(r, []string{"doh", "doq"}))
		return w, false
	}
	or := "ok"
	judge := func(c int, raw []byte, w *srvh.MsgWriter, what string) {
		if or != "ok" || w == nil {
			return
		}
		if len(w.Msgs) > 1 {
			or = fail("pool/escape/two-replies-to-one-request", "%s (client %d) received %d replies", what, c, len(w.Msgs))
			return
		}
		for _, m := range w.Msgs {
			b, _ := m.Pack()
			if why := whyNotOwn(raw, b); why != "" {
				or = fail("pool/escape/reply-of-another-request", "%s (client %d): %s", what, c, why)
			}
		}
	}
	seq, escapes, overlaps := 0, 0, 0
	for round := 0; round < rounds && or == "ok"; round++ {
		// 1. a few requests whose handler panics; nothing recovers inside the chain
		for k := 0; k < 1+r.Intn(2); k++ {
			seq++
			req, raw := mk(1, seq, "pn")
			w, esc := serve(1, req)
			if esc {
				escapes++
			}
			judge(1, raw, w, "the panicking request")
		}
		// 2. 2-3 requests that overlap: the first ones are held inside the handler while the last runs
		n := 2 + r.Intn(2)
		type inflight struct {
			c    int
			raw  []byte
			w    *srvh.MsgWriter
			name string
			done chan struct{}
		}
		var fl []*inflight
		for k := 0; k < n-1; k++ {
			seq++
			req, raw := mk(2+k, seq, "ok")
			name := strings.ToLower(req.Question[0].Name)
			gateMu.Lock()
			gates[name] = make(chan struct{})
			gateMu.Unlock()
			x := &inflight{c: 2 + k, raw: raw, name: name, done: make(chan struct{})}
			before := l.Stub.Calls.Load()
			go func() {
				defer close(x.done)
				x.w, _ = serve(x.c, req)
			}()
			for t := time.Now(); l.Stub.Calls.Load() == before && time.Since(t) < 2*time.Second; {
				time.Sleep(100 * time.Microsecond)
			}
			fl = append(fl, x)
		}
		seq++
		req, raw := mk(9, seq, "ok")
		w, _ := serve(9, req)
		for _, x := range fl {
			gateMu.Lock()
			close(gates[x.name])
			delete(gates, x.name)
			gateMu.Unlock()
			<-x.done
		}
		overlaps++
		judge(9, raw, w, "the request that ran while others were in flight")
		for _, x := range fl {
			judge(x.c, x.raw, x.w, "a request held in its handler")
		}
	}
	return vlib.Res{Impl: fmt.Sprintf("escapes=%d overlaps=%d", escapes, overlaps), Oracle: or, Tags: "nt,decoded-escape"}
}

var poolSeq int

func execPool(f []string) vlib.Res {
	if f[1] == "escape" {
		return execPoolEscape(f)
	}
	// pool subq <pattern of w/n>: sequential internal queries through the pooled BufferWriter + pooled chain
	reg := middleware.NewRegistry()
	st := &subStub{}
	reg.Register("c10sub", func(*config.Config) middleware.Handler { return st })
	p := reg.Build(&config.Config{})
	middleware.VerifL3AutoWire(p)
	var got []string
	or := "ok"
	for i, c := range f[2] {
		name := fmt.Sprintf("%c%d.pool.c10.", c, i)
		req := new(dns.Msg)
		req.SetQuestion(name, dns.TypeTXT)
		req.Id = uint16(100 + i)
		resp, err := st.q.Query(context.Background(), req)
		switch {
		case err != nil || resp == nil:
			got = append(got, "none")
			if c == 'w' && or == "ok" {
				or = fail("pool/subquery-reply-lost", "sub-query %d (%s) got no response: %v", i, name, err)
			}
		default:
			got = append(got, fmt.Sprint(resp.Id))
			if c == 'n' && or == "ok" {
				or = fail("pool/leftover-response", "sub-query %d wrote nothing but its caller received a response for %v", i, resp.Question)
			} else if (len(resp.Question) != 1 || resp.Question[0].Name != name || resp.Id != req.Id) && or == "ok" {
				or = fail("pool/response-of-another-query", "sub-query %d (%s, id %d) received id %d %v", i, name, req.Id, resp.Id, resp.Question)
			}
		}
	}
	return vlib.Res{Impl: strings.Join(got, ","), Oracle: or, Tags: "nt"}
}

var walkSeq int

// execShareWalk: end to end. DNSSEC validation and QNAME minimisation on;
// n clients resolve DIFFERENT names under one nonexistent parent of the signed
// root at the same moment, while the root holds its answer for the minimised
// probe so that the walks share one upstream lookup. Every client must get a
// reply with its own id and its own question.
func execShareWalk(f []string) vlib.Res {
	// share walk <hold-ms> <id,id,...>
	hold := time.Duration(vlib.Atoi(f[2])) * time.Millisecond
	var ids []uint16
	for _, s := range strings.Split(f[3], ",") {
		ids = append(ids, uint16(vlib.Atoi(s)))
	}
	walkSeq++
	w := l3.NewWorld(true)
	defer w.Close()
	p := l3.NewPipe(w, l3.PipeOpts{DNSSEC: true, Tweak: func(cfg *config.Config) { cfg.QnameMinLevel = 5 }})
	defer p.Close()
	// prime the trust chain with a name that EXISTS: a negative warm-up would leave an NSEC
	// in the cache from which the next denial is synthesised without asking the root
	z := w.AddZone("exist.", l3.ZoneOpts{Signed: true, PublishDS: true})
	z.Add("www.exist. 300 IN A 192.0.2.7")
	if r := p.Query("www.exist.", dns.TypeA, l3.Flags{DO: true}); r == nil || len(r.Answer) == 0 {
		return vlib.Res{Impl: "warmup-failed", Oracle: "-"}
	}
	tld := fmt.Sprintf("gone%d.", walkSeq)
	root := w.Root.Servers[0]
	root.SetBehaviour(l3.Behaviour{Delay: func(q dns.Question, _ bool) time.Duration {
		if strings.EqualFold(q.Name, tld) {
			return hold
		}
		return 0
	}})
	before := int(root.UDPQueries.Load() + root.TCPQueries.Load())
	names := make([]string, len(ids))
	resps := make([]*dns.Msg, len(ids))
	var wg sync.WaitGroup
	for i := range ids {
		names[i] = fmt.Sprintf("%c.%s", 'a'+i, tld)
		wg.Add(1)
		go func(i int) {
			defer wg.Done()
			req := new(dns.Msg)
			req.SetQuestion(names[i], dns.TypeA)
			req.Id = ids[i]
			req.SetEdns0(1232, true)
			resps[i] = p.Exchange(req, l3.Flags{Client: fmt.Sprintf("10.1.2.%d:4242", 10+i)})
		}(i)
	}
	wg.Wait()
	probes := int(root.UDPQueries.Load()+root.TCPQueries.Load()) - before
	or := "ok"
	got := make([]string, len(ids))
	ownQ := true
	for i, r := range resps {
		if r == nil {
			got[i] = "none"
			continue
		}
		got[i] = fmt.Sprint(r.Id)
		if r.Id != ids[i] && or == "ok" {
			or = fail("share/walk/id-of-another-client", "client %d (%s, id %d) received a reply carrying id %d", i, names[i], ids[i], r.Id)
		}
		if len(r.Question) != 1 || !strings.EqualFold(r.Question[0].Name, names[i]) {
			ownQ = false
			if or == "ok" {
				or = fail("share/walk/question-of-another-client", "client %d asked %s and received a reply for %v", i, names[i], r.Question)
			}
		}
	}
	tags := "nt"
	if probes < len(ids) {
		tags += fmt.Sprintf(",sharedwalk%d", len(ids)-probes)
	}
	return vlib.Res{Impl: fmt.Sprintf("ids=%s ownq=%s", strings.Join(got, ","), vlib.B(ownQ)), Oracle: or, Tags: tags}
}
