//go:build verif

package main

import (
	"bytes"
	"fmt"
	"net"
	"net/netip"
	"sort"
	"strings"
	"syscall"
	"time"

	"github.com/semihalev/sdns/internal/verif/vlib"
	"github.com/semihalev/sdns/server"
)

// ---- UDP rig: the real engine, single-stepped --------------------------------

const nClients = 4

type sentPkt struct {
	client   int
	raw      []byte
	answered bool
}

type udpRig struct {
	u       *server.VerifC10UDP
	clients [nClients]*net.UDPConn
	ports   map[uint16]int
	queued  []*sentPkt // sent to the socket, not yet consumed by a reader
	sent    []*sentPkt // everything ever sent (oracle)
	srvMode bool
}

func newUDPRig(srv *server.Server, inline bool, slabCap int, dirtyPat int) (*udpRig, error) {
	return newUDPRigBind(srv, inline, slabCap, dirtyPat, false)
}

func newUDPRigBind(srv *server.Server, inline bool, slabCap int, dirtyPat int, wildcard bool) (*udpRig, error) {
	u, err := server.VerifC10NewUDPBind(scripted, srv, inline, 64, slabCap, wildcard)
	if err != nil {
		return nil, err
	}
	r := &udpRig{u: u, ports: map[uint16]int{}, srvMode: srv != nil}
	for i := range r.clients {
		c, err := net.DialUDP("udp4", &net.UDPAddr{IP: net.IPv4(127, 0, 0, 1)}, u.Addr())
		if err != nil {
			return nil, err
		}
		r.clients[i] = c
		r.ports[uint16(c.LocalAddr().(*net.UDPAddr).Port)] = i
	}
	if dirtyPat >= 0 {
		// the stale peer a previous occupant would have left: client 3
		stale := r.clients[nClients-1].LocalAddr().(*net.UDPAddr).AddrPort()
		stale = netip.AddrPortFrom(stale.Addr().Unmap(), stale.Port())
		u.OnTake = func(s server.VerifC10Slab, recycled bool) { s.Scribble(byte(dirtyPat), stale) }
	}
	return r, nil
}

func (r *udpRig) close() {
	if r == nil {
		return
	}
	for _, c := range r.clients {
		if c != nil {
			_ = c.Close()
		}
	}
	r.u.Close()
}

func (r *udpRig) clientOf(ap netip.AddrPort) int {
	if i, ok := r.ports[ap.Port()]; ok {
		return i
	}
	return -1
}

type dgram struct {
	client int
	b      []byte
}

// drainOnce reads everything currently queued on the clients' sockets
// without blocking (MSG_DONTWAIT).
func (r *udpRig) drainOnce() (out []dgram) {
	buf := make([]byte, 70000)
	for i, c := range r.clients {
		rc, err := c.SyscallConn()
		if err != nil {
			continue
		}
		for {
			n := -1
			_ = rc.Control(func(fd uintptr) {
				k, _, e := syscall.Recvfrom(int(fd), buf, syscall.MSG_DONTWAIT)
				if e == nil {
					n = k
				}
			})
			if n < 0 {
				break
			}
			out = append(out, dgram{i, append([]byte(nil), buf[:n]...)})
		}
	}
	return out
}

// drain collects the datagrams an op produced. atLeast is how many sends the
// engine reported (used only to wait for loopback delivery, never to judge).
func (r *udpRig) drain(atLeast int) []dgram {
	out := r.drainOnce()
	deadline := time.Now().Add(200 * time.Millisecond)
	for len(out) < atLeast && time.Now().Before(deadline) {
		time.Sleep(50 * time.Microsecond)
		out = append(out, r.drainOnce()...)
	}
	sortDgrams(out)
	return out
}

// canonical order: by client, then by bytes (the order of two datagrams to
// one client carries no meaning)
func sortDgrams(ds []dgram) {
	sort.SliceStable(ds, func(i, j int) bool {
		if ds[i].client != ds[j].client {
			return ds[i].client < ds[j].client
		}
		return bytes.Compare(ds[i].b, ds[j].b) < 0
	})
}

func fmtSent(ds []dgram) string {
	if len(ds) == 0 {
		return "sent=-"
	}
	parts := make([]string, len(ds))
	for i, d := range ds {
		parts[i] = fmt.Sprintf("c%d:%s", d.client, vlib.Hex(d.b))
	}
	return "sent=" + strings.Join(parts, "|")
}

// judge is the property oracle for the scripted rigs: every datagram a
// client receives must be an acceptable reply to a packet THAT client sent
// and that has not been answered yet.
func (r *udpRig) judge(ds []dgram, own func(sent, got []byte) bool) string {
	for _, d := range ds {
		matched := false
		for _, p := range r.sent {
			if p.client == d.client && !p.answered && own(p.raw, d.b) {
				p.answered = true
				matched = true
				break
			}
		}
		if matched {
			continue
		}
		// classify: somebody else's (or an already delivered) reply, or bytes nobody owns
		for _, p := range r.sent {
			if own(p.raw, d.b) {
				if p.client != d.client {
					return fail("udp/reply-to-wrong-client", "client c%d received the reply to a packet of c%d: %s", d.client, p.client, vlib.Hex(d.b))
				}
				return fail("udp/leftover-reply", "client c%d received a second copy of an already delivered reply: %s", d.client, vlib.Hex(d.b))
			}
		}
		return fail("udp/foreign-bytes", "client c%d received bytes that answer none of its packets: %s", d.client, vlib.Hex(d.b))
	}
	return "ok"
}

var (
	udpA, udpB *udpRig // A: fresh slabs; B: every slab scribbled on take
	udpInline  bool
)

func fateStr(r *udpRig, recs []server.VerifC10Recv) string {
	parts := make([]string, len(recs))
	for i, x := range recs {
		c := "c?"
		if x.Fate != "dropped" {
			c = fmt.Sprintf("c%d", r.clientOf(x.From))
		}
		parts[i] = fmt.Sprintf("%s:%d:%s", c, x.RxLen, x.Fate)
	}
	if len(parts) == 0 {
		return "-"
	}
	return strings.Join(parts, ",")
}

// one op against one rig; returns the canonical result and the datagrams seen
func (r *udpRig) step(f []string) (string, []dgram) {
	switch f[1] {
	case "send":
		c := vlib.Atoi(f[2])
		raw := vlib.UnHex(f[3])
		if _, err := r.clients[c].Write(raw); err != nil {
			return "send-error", nil
		}
		p := &sentPkt{client: c, raw: raw}
		r.queued = append(r.queued, p)
		r.sent = append(r.sent, p)
		return "ok", nil
	case "read":
		if len(r.queued) == 0 {
			return "empty", nil
		}
		if f[2] == "portable" {
			want := 0
			for _, p := range r.queued {
				if len(p.raw) <= 4096 {
					want++
				}
			}
			recs := r.u.ReadPortable(want)
			r.queued = nil
			ds := r.drain(0)
			return fmt.Sprintf("n=%d %s shed=0 %s", len(recs), fateStr(r, recs), fmtSent(ds)), ds
		}
		max := vlib.Atoi(f[3])
		flushedBefore := r.u.ReaderFlushed
		recs, shed := r.u.ReadBatch(max, len(r.queued))
		consumed := len(recs) + shed
		if consumed > len(r.queued) {
			consumed = len(r.queued)
		}
		r.queued = r.queued[consumed:]
		ds := r.drain(r.u.ReaderFlushed - flushedBefore)
		return fmt.Sprintf("n=%d %s shed=%d %s", len(recs), fateStr(r, recs), shed, fmtSent(ds)), ds
	case "serve":
		overflow := len(f) > 2 && f[2] == "overflow"
		res, ok := r.u.ServeNext(overflow)
		if !ok {
			return "idle", nil
		}
		at := 0
		if res.Flushed {
			at = res.BurstN
		}
		ds := r.drain(at)
		if overflow && len(ds) == 0 {
			// a direct send leaves no count behind: give loopback one more chance before deciding "nothing"
			time.Sleep(200 * time.Microsecond)
			ds = r.drain(0)
		}
		return fmt.Sprintf("staged=%s burst=%d flushed=%s %s", vlib.B(res.Staged), map[bool]int{true: 0, false: res.BurstN}[res.Flushed], vlib.B(res.Flushed), fmtSent(ds)), ds
	case "flush":
		n := r.u.Flush()
		ds := r.drain(n)
		return fmtSent(ds), ds
	case "txplan":
		var plan []int
		for _, x := range strings.Split(f[2], ",") {
			switch x {
			case "x":
				plan = append(plan, 0)
			case "r":
				plan = append(plan, -1)
			default:
				plan = append(plan, vlib.Atoi(x))
			}
		}
		r.u.SetTXPlan(plan)
		return "ok", nil
	case "drain":
		// read everything queued, serve everything pending, flush — until nothing is left
		var all []dgram
		for iter := 0; iter < 256; iter++ {
			if len(r.queued) > 0 {
				_, ds := r.step([]string{"udp", "read", "batch", "16"})
				all = append(all, ds...)
			}
			for r.u.Pending() > 0 {
				_, ds := r.step([]string{"udp", "serve"})
				all = append(all, ds...)
			}
			_, ds := r.step([]string{"udp", "flush"})
			all = append(all, ds...)
			if len(r.queued) == 0 && r.u.Pending() == 0 {
				break
			}
		}
		sortDgrams(all)
		return fmtSent(all), all
	}
	return "bad-op", nil
}

func execUDP(f []string) vlib.Res {
	if f[1] == "new" {
		udpA.close()
		udpB.close()
		udpA, udpB = nil, nil
		udpInline = f[2] == "inline" || f[2] == "winline"
		wild := strings.HasPrefix(f[2], "w")
		slabCap := vlib.Atoi(f[3])
		pat := int(vlib.UnHex(f[4])[0])
		var err error
		if udpA, err = newUDPRigBind(nil, udpInline, slabCap, -1, wild); err != nil {
			return vlib.Res{Impl: "rig-error " + err.Error()}
		}
		if udpB, err = newUDPRigBind(nil, udpInline, slabCap, pat, wild); err != nil {
			return vlib.Res{Impl: "rig-error " + err.Error()}
		}
		return vlib.Res{Impl: "ok inline=" + vlib.B(udpA.u.Inline()), Oracle: "-"}
	}
	if udpA == nil {
		return vlib.Res{Impl: "no-rig"}
	}
	if f[1] == "end" {
		// end of case: everything flushed, every slab back, nothing request-owned left on a parked slab
		la, ia, _ := udpA.u.Counters()
		or := "ok"
		if udpA.u.ParkedDirty() || udpB.u.ParkedDirty() {
			or = fail("udp/release/parked-slab-keeps-request-state", "a parked slab still carries a request-owned length or flag")
		}
		ds := append(udpA.drain(0), udpB.drain(0)...)
		if len(ds) > 0 && or == "ok" {
			or = fail("udp/leftover-reply", "datagram arrived after the case was over: c%d %s", ds[0].client, vlib.Hex(ds[0].b))
		}
		return vlib.Res{Impl: fmt.Sprintf("leased=%d inflight=%d pending=%d", la, ia, udpA.u.Pending()), Oracle: or}
	}
	ra, da := udpA.step(f)
	rb, db := udpB.step(f)
	or := "ok"
	if ra != rb {
		or = fail("udp/residue/"+f[1], "the same request on a scribbled slab behaved differently: clean=%q dirty=%q", ra, rb)
	}
	if or == "ok" {
		or = udpA.judge(da, ownReply)
	}
	if or == "ok" {
		or = udpB.judge(db, ownReply)
		if or != "ok" {
			or = strings.Replace(or, "sig=udp/", "sig=udp/dirty-slab/", 1)
		}
	}
	tags := ""
	if f[1] != "send" {
		tags = "nt"
	}
	if f[1] == "send" || f[1] == "txplan" {
		or = "-"
	}
	if f[1] == "txplan" {
		tags = "txplan"
	}
	return vlib.Res{Impl: ra, Oracle: or, Tags: tags}
}
