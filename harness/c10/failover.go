//go:build verif

// The optional failover middleware (fallbackservers configured): the real
// failover.Failover in a chain [failover, scripted primary], fallback servers
// = scripted UDP servers on loopback.
package main

import (
	"context"
	"fmt"
	"net"
	"strings"
	"time"

	"github.com/miekg/dns"
	"github.com/semihalev/sdns/config"
	"github.com/semihalev/sdns/internal/verif/vlib"
	"github.com/semihalev/sdns/middleware"
	"github.com/semihalev/sdns/middleware/failover"
	"github.com/semihalev/sdns/middleware/forwarder"
	"io"
	"log"
	"net/http"
	"net/http/httptest"
)

type foPrimary struct{ rcode int }

func (p *foPrimary) Name() string { return "c10primary" }
func (p *foPrimary) ServeDNS(ctx context.Context, ch *middleware.Chain) {
	req := ch.Request.Msg()
	m := new(dns.Msg)
	m.SetRcode(req, p.rcode)
	m.RecursionAvailable = true
	_ = ch.Writer.WriteMsg(m)
	ch.Cancel()
}

// fallback server modes: sf = SERVFAIL, ok = an A answer 192.0.2.(10+i),
// nx = NXDOMAIN with SOA, dead = nothing listens on the port
func startFallback(i int, mode string) (addr string, stop func()) {
	pc, err := net.ListenPacket("udp", "127.0.0.1:0")
	if err != nil {
		panic(err)
	}
	addr = pc.LocalAddr().String()
	if mode == "dead" {
		_ = pc.Close()
		return addr, func() {}
	}
	h := dns.HandlerFunc(func(w dns.ResponseWriter, r *dns.Msg) {
		m := new(dns.Msg)
		m.SetReply(r)
		m.RecursionAvailable = true
		switch mode {
		case "sf":
			m.Rcode = dns.RcodeServerFailure
		case "nx":
			m.Rcode = dns.RcodeNameError
			soa, _ := dns.NewRR("fo.c10. 60 IN SOA ns.fo.c10. h.fo.c10. 1 2 3 4 5")
			m.Ns = []dns.RR{soa}
		default:
			a, _ := dns.NewRR(fmt.Sprintf("%s 60 IN A 192.0.2.%d", r.Question[0].Name, 10+i))
			m.Answer = []dns.RR{a}
		}
		_ = w.WriteMsg(m)
	})
	srv := &dns.Server{PacketConn: pc, Handler: h}
	started := make(chan struct{})
	srv.NotifyStartedFunc = func() { close(started) }
	go func() { _ = srv.ActivateAndServe() }()
	select {
	case <-started:
	case <-time.After(3 * time.Second):
	}
	return addr, func() { _ = srv.Shutdown() }
}

func execFailover(f []string) vlib.Res {
	// fo run <id> <rd t/f> <primary rcode> <modes|-> <proto udp|tcp>
	id, rd, prc := uint16(vlib.Atoi(f[2])), f[3] == "t", vlib.Atoi(f[4])
	var modes []string
	if f[5] != "-" {
		modes = strings.Split(f[5], ",")
	}
	cfg := &config.Config{}
	var stops []func()
	for i, m := range modes {
		addr, stop := startFallback(i, m)
		cfg.FallbackServers = append(cfg.FallbackServers, addr)
		stops = append(stops, stop)
	}
	defer func() {
		for _, s := range stops {
			s()
		}
	}()
	ch := middleware.NewChain([]middleware.Handler{failover.New(cfg), &foPrimary{rcode: prc}})
	w := &capT{tcp: f[6] == "tcp", port: 7}
	req := new(dns.Msg)
	req.SetQuestion(fmt.Sprintf("q%d.fo.c10.", id), dns.TypeA)
	req.Id = id
	req.RecursionDesired = rd
	req.SetEdns0(1232, false)
	ch.Reset(w, req)
	ctx, cancel := context.WithTimeout(context.Background(), 8*time.Second)
	defer cancel()
	ch.Next(ctx)

	var replies []*dns.Msg
	replies = append(replies, w.msgs...)
	for _, b := range w.writes {
		m := new(dns.Msg)
		if m.Unpack(b) == nil {
			replies = append(replies, m)
		}
	}
	or := "ok"
	if len(replies) != 1 {
		or = fail("failover/reply-count", "%d replies written for one query", len(replies))
		return vlib.Res{Impl: fmt.Sprintf("n=%d", len(replies)), Oracle: or, Tags: "nt"}
	}
	r := replies[0]
	if r.Id != id {
		or = fail("failover/id-of-another-transaction", "the client's query carried id %d, the reply carries %d", id, r.Id)
	} else if len(r.Question) != 1 || r.Question[0] != req.Question[0] {
		or = fail("failover/question-differs", "%v", r.Question)
	}
	mark := 0
	for _, rr := range r.Answer {
		if a, ok := rr.(*dns.A); ok {
			mark = int(a.A.To4()[3])
		}
	}
	tags := "nt,fo-primary"
	if len(modes) > 0 && prc == dns.RcodeServerFailure && rd {
		tags = "nt,fo-engaged"
	}
	return vlib.Res{Impl: fmt.Sprintf("n=1 id=%d rcode=%d a=%d", r.Id, r.Rcode, mark), Oracle: or, Tags: tags}
}

// ---- forwarder (forwarderservers configured): UDP, dead and DoH upstreams ----------

func execForwarder(f []string) vlib.Res {
	// fw run <id> <modes> <proto>; modes: sf | ok | nx | dead | dohdead | dohtls
	id := uint16(vlib.Atoi(f[2]))
	modes := strings.Split(f[3], ",")
	cfg := &config.Config{}
	cfg.Timeout.Duration = 700 * time.Millisecond
	cfg.QueryTimeout.Duration = 5 * time.Second
	var stops []func()
	defer func() {
		for _, s := range stops {
			s()
		}
	}()
	for i, m := range modes {
		switch m {
		case "dohdead":
			addr, _ := startFallback(i, "dead")
			cfg.ForwarderServers = append(cfg.ForwarderServers, "https://"+addr+"/dns-query")
		case "dohtls":
			// a DoH upstream whose exchange fails after the request was packed (certificate not trusted / HTTP 500)
			ts := httptest.NewUnstartedServer(http.HandlerFunc(func(w http.ResponseWriter, _ *http.Request) { w.WriteHeader(500) }))
			ts.Config.ErrorLog = log.New(io.Discard, "", 0)
			ts.StartTLS()
			stops = append(stops, ts.Close)
			cfg.ForwarderServers = append(cfg.ForwarderServers, ts.URL+"/dns-query")
		default:
			addr, stop := startFallback(i, m)
			stops = append(stops, stop)
			cfg.ForwarderServers = append(cfg.ForwarderServers, addr)
		}
	}
	ch := middleware.NewChain([]middleware.Handler{forwarder.New(cfg)})
	w := &capT{tcp: f[4] == "tcp", port: 8}
	req := new(dns.Msg)
	req.SetQuestion(fmt.Sprintf("q%d.fw.c10.", id), dns.TypeA)
	req.Id = id
	req.SetEdns0(1232, false)
	ch.Reset(w, req)
	ctx, cancel := context.WithTimeout(context.Background(), 8*time.Second)
	defer cancel()
	ch.Next(ctx)
	var replies []*dns.Msg
	replies = append(replies, w.msgs...)
	for _, b := range w.writes {
		m := new(dns.Msg)
		if m.Unpack(b) == nil {
			replies = append(replies, m)
		}
	}
	if len(replies) != 1 {
		return vlib.Res{Impl: fmt.Sprintf("n=%d", len(replies)), Oracle: fail("forwarder/reply-count", "%d replies written for one query", len(replies)), Tags: "nt"}
	}
	r := replies[0]
	or := "ok"
	if r.Id != id {
		or = fail("forwarder/id-of-another-transaction", "the client's query carried id %d, the reply carries %d (upstreams: %s)", id, r.Id, f[3])
	} else if len(r.Question) != 1 || !strings.EqualFold(r.Question[0].Name, req.Question[0].Name) {
		or = fail("forwarder/question-differs", "%v", r.Question)
	}
	mark := 0
	for _, rr := range r.Answer {
		if a, ok := rr.(*dns.A); ok {
			mark = int(a.A.To4()[3])
		}
	}
	tags := "nt,fw"
	if strings.Contains(f[3], "doh") {
		tags += ",fw-doh-failed"
	}
	return vlib.Res{Impl: fmt.Sprintf("n=1 id=%d rcode=%d a=%d", r.Id, r.Rcode, mark), Oracle: or, Tags: tags}
}
