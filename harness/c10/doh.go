//go:build verif

// Transports that KEEP the reply message after the serve returned: DoH / DoH3
// (Server.ServeHTTP hands ServeMsg a mock.Writer that retains the *dns.Msg and
// packs it only after ServeMsg is back and the chain is in the pool again).
// Whatever a later request does — on the same pooled chain, through the same
// shared configuration records — must not change a message already handed over.
package main

import (
	"bytes"
	"context"
	"fmt"
	"io"
	"net/http"
	"net/http/httptest"
	"strings"

	"github.com/miekg/dns"
	"github.com/semihalev/sdns/config"
	"github.com/semihalev/sdns/internal/mock"
	"github.com/semihalev/sdns/internal/verif/srvh"
	"github.com/semihalev/sdns/internal/verif/vlib"
)

const viewZone = "view.c10."

func viewsTweak(cfg *config.Config) {
	cfg.Views = []config.ViewConfig{{Zone: viewZone, Networks: []string{"0.0.0.0/0", "::/0"},
		Answers: []string{"www.view.c10. 60 IN A 10.9.0.1", "*.wild.view.c10. 60 IN A 10.9.0.2"}}}
}

func rand0x20(r *vlib.R, s string) string {
	b := []byte(s)
	for i, c := range b {
		if c >= 'a' && c <= 'z' && r.Chance(1, 2) {
			b[i] = c - 32
		}
	}
	return string(b)
}

// viewReplyOwn: the reply to a query for a name of the views zone must echo the
// query's own spelling in question AND answer owner, byte for byte.
func viewReplyOwn(q, r *dns.Msg) string {
	if r.Id != q.Id {
		return "id differs"
	}
	if len(r.Question) != 1 || r.Question[0] != q.Question[0] {
		return fmt.Sprintf("question %v is not this query's %v", r.Question, q.Question)
	}
	for _, rr := range r.Answer {
		if rr.Header().Name != q.Question[0].Name {
			return fmt.Sprintf("answer owner %q is not this query's spelling %q: bytes of another client's query", rr.Header().Name, q.Question[0].Name)
		}
	}
	if r.Rcode == dns.RcodeSuccess && len(r.Answer) != 1 {
		return fmt.Sprintf("%d answers", len(r.Answer))
	}
	return ""
}

func retainLive() *srvh.Live {
	l := srvh.Start(srvh.Opts{Handlers: []string{"recovery", "edns", "views", "cache"}, Tweak: viewsTweak})
	l.Stub.Set(stubRespond)
	l.Stub.Delay = stubDelay
	l.Stub.Panic = stubPanic
	return l
}

var retainSeq int

func execRetain(f []string) vlib.Res {
	// retain seq <seed> <kind,kind,…>: decoded-entry requests, one after the other; every reply message
	// is kept by its transport (the real DoH writer) and looked at only after ALL were served.
	seed, kinds := vlib.AtoU64(f[2]), strings.Split(f[3], ",")
	n := len(kinds)
	r := vlib.NewR(seed)
	l := retainLive()
	defer l.Stop()
	retainSeq++
	type kept struct {
		req  *dns.Msg
		raw  []byte
		w    *mock.Writer
		http []byte // DoH exchanges that went through Server.ServeHTTP: the body received
		kind string
	}
	var ks []*kept
	var okNames []string
	for i := 1; i <= n; i++ {
		c := i % 3
		kind := kinds[i-1]
		name, qt := "", dns.TypeTXT
		switch kind {
		case "ok":
			name = fmt.Sprintf("rt%d-c%d-s%d-ok.z.c10.", retainSeq, c, i)
			okNames = append(okNames, name)
		case "hit":
			if len(okNames) == 0 {
				name = fmt.Sprintf("rt%d-c%d-s%d-ok.z.c10.", retainSeq, c, i)
				okNames = append(okNames, name)
			} else {
				name = vlib.Pick(r, okNames)
			}
		case "pn", "nr":
			name = fmt.Sprintf("rt%d-c%d-s%d-%s.z.c10.", retainSeq, c, i, kind)
		case "vx":
			name, qt = rand0x20(r, "www."+viewZone), dns.TypeA
		case "vw":
			name, qt = rand0x20(r, fmt.Sprintf("h%d.wild.%s", r.Intn(3), viewZone)), dns.TypeA
		case "sh":
			name = "shared1-ok.z.c10."
		case "big":
			name, qt = bigName(retainSeq%1000, i, vlib.Pick(r, []int{58, 60, 70})), dns.TypeA
		case "ck", "lie":
			// fixed-width names: a short body's question ends exactly where a longer body's OPT began
			name = fmt.Sprintf("rt%03d-c%d-s%03d-ok.z.c10.", retainSeq%1000, c, i)
		}
		m := new(dns.Msg)
		m.SetQuestion(name, qt)
		m.Id = uint16(c)<<10 | uint16(i)
		m.SetEdns0(1232, false)
		if i%3 == 1 || kind == "ck" {
			o := m.IsEdns0()
			o.Option = append(o.Option, &dns.EDNS0_COOKIE{Code: dns.EDNS0COOKIE, Cookie: clientCookie(m.Id)})
		}
		raw, _ := m.Pack()
		if kind == "lie" {
			// a body whose ARCOUNT promises an additional record it does not carry
			m = new(dns.Msg)
			m.SetQuestion(name, qt)
			m.Id = uint16(c)<<10 | uint16(i)
			raw, _ = m.Pack()
			raw[11] = 1
		}
		k := &kept{req: m, raw: raw, kind: kind}
		if r.Chance(1, 4) || kind == "ck" || kind == "lie" {
			// the whole real DoH exchange (packs right after the serve)
			rec := httptest.NewRecorder()
			hr := httptest.NewRequest(http.MethodPost, "/dns-query", bytes.NewReader(raw))
			hr.Header.Set("Content-Type", "application/dns-message")
			hr.RemoteAddr = fmt.Sprintf("198.51.100.%d:%d", 10+c, 7000+i)
			l.Srv.ServeHTTP(rec, hr)
			if rec.Code == http.StatusOK {
				k.http, _ = io.ReadAll(rec.Body)
			}
		} else {
			k.w = mock.NewWriter("doh", fmt.Sprintf("198.51.100.%d:%d", 10+c, 7000+i))
			cp := m.Copy() // the transport decoded its own message
			l.Srv.ServeMsg(context.Background(), k.w, cp)
		}
		ks = append(ks, k)
	}
	or := "ok"
	out := make([]string, len(ks))
	for i, k := range ks {
		var b []byte
		if k.w != nil {
			if !k.w.Written() || k.w.Msg() == nil {
				out[i] = "none"
				continue
			}
			b, _ = k.w.Msg().Pack() // what DoH does, late
		} else {
			b = k.http
		}
		if len(b) == 0 {
			out[i] = "none"
			continue
		}
		rm := new(dns.Msg)
		if err := rm.Unpack(b); err != nil {
			out[i] = "garbled"
			if or == "ok" {
				or = fail("retain/garbled-reply", "request %d (%s)", i+1, k.kind)
			}
			continue
		}
		out[i] = fmt.Sprint(rm.Id)
		why := ""
		if strings.HasSuffix(strings.ToLower(k.req.Question[0].Name), viewZone) {
			why = viewReplyOwn(k.req, rm)
		} else {
			why = whyNotOwn(k.raw, b)
		}
		if why != "" && or == "ok" {
			or = fail("retain/reply-changed-after-serve/"+k.kind, "request %d of %d (%s, id %d): the message its transport kept now reads: %s", i+1, len(ks), k.req.Question[0].Name, k.req.Id, why)
		}
	}
	// the model needs to know which requests the handler left unanswered: only "nr"
	return vlib.Res{Impl: strings.Join(out, ","), Oracle: or, Tags: "nt,retain"}
}

