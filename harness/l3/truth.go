//go:build verif

package l3

import (
	"github.com/miekg/dns"
)

// Security status of a name's chain of trust in the specification.
const (
	Secure   = "secure"
	Insecure = "insecure"
	Bogus    = "bogus" // the parent publishes a DS no key of the child matches
)

// Truth is what an ideal resolver would learn from the honest world.
type Truth struct {
	Kind     string   // "answer" | "nodata" | "nxdomain" | "lame" | "loop"
	Rcode    int      // expected rcode for Kind
	Answer   []dns.RR // honest answer section (alias chain + final RRset), without RRSIGs
	Status   string   // Secure only if every zone on the whole alias chain is secure
	AuthZone []string // authoritative zone of every hop
}

// chain walks from the root to the zone authoritative for (name, qtype).
func (w *World) chain(name string, qtype uint16) (*Zone, string) {
	name = lc(name)
	z := w.Root
	status := Insecure
	if z.Signed {
		status = Secure
	}
	for {
		d := z.cutAbove(name)
		if d == nil || (qtype == dns.TypeDS && d.Child == name) {
			return z, status
		}
		child := w.Zones[d.Child]
		if child == nil {
			return nil, status
		}
		if status == Secure {
			switch {
			case len(d.DS) == 0:
				status = Insecure
			case !child.Signed:
				status = Bogus
			default:
				match := false
				for _, k := range child.Keys {
					for _, ds := range d.DS {
						if x := k.Key.ToDS(ds.(*dns.DS).DigestType); x != nil && x.Digest == ds.(*dns.DS).Digest && x.KeyTag == ds.(*dns.DS).KeyTag {
							match = true
						}
					}
				}
				if !match {
					status = Bogus
				}
			}
		}
		z = child
	}
}

func worse(a, b string) string {
	rank := map[string]int{Secure: 0, Insecure: 1, Bogus: 2}
	if rank[b] > rank[a] {
		return b
	}
	return a
}

// Truth computes the expected outcome for (name, qtype) from the specification.
func (w *World) Truth(name string, qtype uint16) Truth {
	t := Truth{Status: Secure}
	cur := lc(name)
	for hop := 0; hop < 12; hop++ {
		z, st := w.chain(cur, qtype)
		t.Status = worse(t.Status, st)
		if z == nil {
			t.Kind, t.Rcode = "lame", dns.RcodeServerFailure
			return t
		}
		t.AuthZone = append(t.AuthZone, z.Name)
		m := new(dns.Msg)
		m.SetQuestion(cur, qtype)
		z.Answer(m.Question[0], false, m)
		var target string
		for _, rr := range m.Answer {
			if rr.Header().Rrtype == dns.TypeRRSIG {
				continue
			}
			t.Answer = append(t.Answer, rr)
			if c, ok := rr.(*dns.CNAME); ok && qtype != dns.TypeCNAME {
				target = lc(c.Target)
			}
		}
		if target != "" {
			cur = target
			continue
		}
		switch {
		case m.Rcode == dns.RcodeNameError:
			t.Kind, t.Rcode = "nxdomain", dns.RcodeNameError
		case len(m.Answer) == 0:
			t.Kind, t.Rcode = "nodata", dns.RcodeSuccess
		default:
			t.Kind, t.Rcode = "answer", dns.RcodeSuccess
		}
		return t
	}
	t.Kind, t.Rcode = "loop", dns.RcodeServerFailure
	return t
}

// Published reports whether rr (ignoring TTL and owner case) is a record some
// zone of the world really publishes, or a CNAME synthesised from a published
// DNAME, or an expansion of a published wildcard.
func (w *World) Published(rr dns.RR) bool {
	owner := lc(rr.Header().Name)
	for _, z := range w.Zones {
		if !dns.IsSubDomain(z.Name, owner) {
			continue
		}
		z.mu.Lock()
		ok := z.publishedLocked(rr, owner)
		z.mu.Unlock()
		if ok {
			return true
		}
	}
	return false
}

func sameData(a, b dns.RR) bool {
	x, y := dns.Copy(a), dns.Copy(b)
	x.Header().Ttl, y.Header().Ttl = 0, 0
	x.Header().Name, y.Header().Name = ".", "."
	return x.String() == y.String()
}

func (z *Zone) publishedLocked(rr dns.RR, owner string) bool {
	t := rr.Header().Rrtype
	for _, c := range z.Records[owner][t] {
		if sameData(c, rr) {
			return true
		}
	}
	if d, ok := z.Children[owner]; ok {
		if t == dns.TypeDS {
			for _, c := range d.DS {
				if sameData(c, rr) {
					return true
				}
			}
		}
		if ns, ok := rr.(*dns.NS); ok {
			for _, h := range d.NS {
				if lc(h) == lc(ns.Ns) {
					return true
				}
			}
		}
	}
	// wildcard expansion / DNAME synthesis: ask the zone itself
	m := new(dns.Msg)
	m.SetQuestion(owner, t)
	zz := &Zone{Name: z.Name, Signed: false, SOA: z.SOA, Records: z.Records, Children: z.Children}
	zz.Answer(m.Question[0], false, m)
	for _, c := range m.Answer {
		if c.Header().Rrtype == t && sameData(c, rr) {
			return true
		}
	}
	return false
}
