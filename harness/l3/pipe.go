//go:build verif

package l3

import (
	"context"
	"fmt"
	"net"
	"os"
	"path/filepath"
	"sync/atomic"
	"time"

	"github.com/miekg/dns"
	"github.com/semihalev/sdns/config"
	"github.com/semihalev/sdns/internal/authority"
	"github.com/semihalev/sdns/internal/mock"
	"github.com/semihalev/sdns/middleware"
	"github.com/semihalev/sdns/middleware/cache"
	"github.com/semihalev/sdns/middleware/edns"
	"github.com/semihalev/sdns/middleware/resolver"
)

// Pipe is the real sdns pipeline (edns + cache + resolver, wired exactly as
// middleware.Setup wires it) pointed at a World.
type Pipe struct {
	W        *World
	Cfg      *config.Config
	P        *middleware.Pipeline
	Cache    *cache.Cache
	Handler  *resolver.DNSHandler
	Resolver *resolver.Resolver
	Dir      string
	// Offset is the total emulated clock advance so far.
	Offset time.Duration
	nextID atomic.Uint32
}

// PipeOpts tweaks the configuration before the pipeline is built.
type PipeOpts struct {
	DNSSEC     bool
	Tweak      func(cfg *config.Config)
	NoRootKeys bool // configure no trust anchor at all
}

var dirSeq atomic.Uint32

// NewPipe builds the pipeline against w.
func NewPipe(w *World, o PipeOpts) *Pipe {
	base := os.Getenv("VERIF_DIR")
	if base == "" {
		base = "/verif"
	}
	dir := filepath.Join(base, "build", "tmp-l3", fmt.Sprintf("p%d-%d", os.Getpid(), dirSeq.Add(1)))
	_ = os.MkdirAll(dir, 0o750)
	cfg := new(config.Config)
	rootSrv := w.Root.Servers[0]
	cfg.RootServers = []string{net.JoinHostPort(rootSrv.IP.String(), "53")}
	cfg.Root6Servers = nil
	cfg.IPv6Access = false
	cfg.Maxdepth = 30
	cfg.Expire = 600
	cfg.CacheSize = 4096
	cfg.Timeout.Duration = 400 * time.Millisecond
	cfg.QueryTimeout.Duration = 4 * time.Second
	cfg.Directory = dir
	cfg.DNSSEC = "off"
	if o.DNSSEC {
		cfg.DNSSEC = "on"
		if !o.NoRootKeys && w.Root.Signed {
			cfg.RootKeys = []string{w.Root.Keys[0].Key.String()}
		}
	}
	if o.Tweak != nil {
		o.Tweak(cfg)
	}
	reg := middleware.NewRegistry()
	var c *cache.Cache
	var h *resolver.DNSHandler
	reg.Register("edns", func(cfg *config.Config) middleware.Handler { return edns.New(cfg) })
	reg.Register("cache", func(cfg *config.Config) middleware.Handler { c = cache.New(cfg); return c })
	reg.Register("resolver", func(cfg *config.Config) middleware.Handler { h = resolver.New(cfg); return h })
	p := reg.Build(cfg)
	middleware.VerifL3AutoWire(p)
	r := resolver.VerifResolver(h)
	amap := w.AddrMap
	resolver.VerifSetResolveTarget(r, func(addr string) string {
		w.mu.Lock()
		defer w.mu.Unlock()
		if t, ok := amap[addr]; ok {
			return t
		}
		// unknown address: route to a black hole port so nothing leaves the sandbox
		return "127.0.0.1:9"
	})
	return &Pipe{W: w, Cfg: cfg, P: p, Cache: c, Handler: h, Resolver: r, Dir: dir}
}

// Close removes the working directory.
func (p *Pipe) Close() { _ = os.RemoveAll(p.Dir) }

// Flags of a client query.
type Flags struct {
	DO, CD, AD, NoRD, NoEDNS bool
	UDPSize                  uint16
	Proto                    string // "udp" (default) | "tcp"
	Client                   string // "ip:port", default 10.1.2.3:4242
}

// Query sends one decoded-path client query through the pipeline and returns
// the reply (nil = no reply was written).
func (p *Pipe) Query(name string, qtype uint16, f Flags) *dns.Msg {
	req := new(dns.Msg)
	req.SetQuestion(dns.Fqdn(name), qtype)
	req.Id = uint16(p.nextID.Add(1)*7919 + 17)
	req.RecursionDesired = !f.NoRD
	req.CheckingDisabled = f.CD
	req.AuthenticatedData = f.AD
	if !f.NoEDNS {
		size := f.UDPSize
		if size == 0 {
			size = 1232
		}
		req.SetEdns0(size, f.DO)
	}
	return p.Exchange(req, f)
}

// Exchange runs an arbitrary request message through the chain.
func (p *Pipe) Exchange(req *dns.Msg, f Flags) *dns.Msg {
	proto := f.Proto
	if proto == "" {
		proto = "udp"
	}
	client := f.Client
	if client == "" {
		client = "10.1.2.3:4242"
	}
	w := mock.NewWriter(proto, client)
	ch := p.P.NewChain()
	defer p.P.PutChain(ch)
	ch.Reset(w, req)
	// The request deadline the server would set (server.serveMsgBy: read
	// time + query timeout) — exactly, so that "reply within the query
	// timeout" is judged against the deadline the real entry point gives.
	ctx, cancel := context.WithTimeout(context.Background(), p.Cfg.QueryTimeout.Duration)
	defer cancel()
	ch.Next(ctx)
	if !w.Written() {
		return nil
	}
	return w.Msg()
}

// Advance emulates the passage of d: every stored timestamp in the answer
// cache, cut cache, proof cache, failure cache and delegation cache moves d
// into the past. RRSIG validity is checked against the real clock, so worlds
// sign with windows far wider than any advance.
func (p *Pipe) Advance(d time.Duration) {
	cache.VerifShift(p.Cache, d)
	authority.VerifShift(resolver.VerifDelegations(p.Resolver), d)
	p.Offset += d
}

// Leases lists zone → remaining delegation lease.
func (p *Pipe) Leases() map[string]time.Duration {
	return authority.VerifEntries(resolver.VerifDelegations(p.Resolver))
}
