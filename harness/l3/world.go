//go:build verif

// Package l3 is the scripted-authority harness ("L3" in DESIGN.md): a DNS
// namespace generated from a specification (zones, delegations, DNSSEC keys,
// NSEC chains), served by loopback authoritative servers whose behaviour can
// be scripted per server, together with the real sdns pipeline
// (edns + cache + resolver) pointed at it and a ground-truth oracle computed
// from the specification.  It is exploration/witness-search machinery; it
// never stands in for a theorem.
package l3

import (
	"crypto"
	"crypto/ecdsa"
	"crypto/ed25519"
	"fmt"
	"sort"
	"strings"
	"sync"
	"time"

	"github.com/miekg/dns"
)

// KeyPair is one DNSKEY with its private half.
type KeyPair struct {
	Key  *dns.DNSKEY
	Priv crypto.PrivateKey
}

// NewKey generates a key for zone (alg: dns.ECDSAP256SHA256, dns.ED25519, dns.RSASHA256 …).
func NewKey(zone string, flags uint16, alg uint8) *KeyPair {
	k := &dns.DNSKEY{
		Hdr:   dns.RR_Header{Name: dns.Fqdn(zone), Rrtype: dns.TypeDNSKEY, Class: dns.ClassINET, Ttl: 3600},
		Flags: flags, Protocol: 3, Algorithm: alg,
	}
	bits := 256
	switch alg {
	case dns.RSASHA256, dns.RSASHA512, dns.RSASHA1:
		bits = 1024
	case dns.ECDSAP384SHA384:
		bits = 384
	}
	for {
		priv, err := k.Generate(bits)
		if err != nil {
			panic(err)
		}
		// miekg refuses to sign with a key whose tag is 0 (1 key in 65536).
		if k.KeyTag() != 0 {
			return &KeyPair{Key: k, Priv: priv}
		}
	}
}

// Delegation is what a parent zone publishes for one child.
type Delegation struct {
	Child   string   // child apex (fqdn, lower case)
	NS      []string // nameserver host names
	NSTTL   uint32
	DS      []dns.RR // nil: no DS (insecure delegation)
	DSTTL   uint32
	Glue    []dns.RR // A/AAAA records the parent hands out in the additional section
	Removed bool     // parent withdrew the delegation (answers NXDOMAIN/NODATA as if absent)
}

// Zone is one authoritative zone.
type Zone struct {
	mu       sync.Mutex
	Name     string
	Signed   bool
	Keys     []*KeyPair // Keys[0] signs everything
	SOA      *dns.SOA
	Records  map[string]map[uint16][]dns.RR // owner (lower case fqdn) → type → RRs
	Children map[string]*Delegation
	Parent   *Zone
	Servers  []*Server

	SigInception  time.Time
	SigExpiration time.Time

	sigCache map[string]*dns.RRSIG
}

// World is the whole namespace.
type World struct {
	mu      sync.Mutex
	Zones   map[string]*Zone
	Root    *Zone
	Servers []*Server
	nextIP  int
	// AddrMap maps advertised "ip:53" to the loopback "127.0.0.1:port" actually serving it.
	AddrMap map[string]string
}

func lc(s string) string { return strings.ToLower(dns.Fqdn(s)) }

// NewWorld creates a namespace with a root zone (signed or not) on one server.
func NewWorld(rootSigned bool) *World {
	w := &World{Zones: map[string]*Zone{}, AddrMap: map[string]string{}}
	w.Root = w.newZone(".", rootSigned, nil)
	srv := w.NewServer("root")
	srv.Attach(w.Root)
	w.Root.setNS([]string{"ns.root-servers.test."})
	return w
}

func (w *World) newZone(name string, signed bool, parent *Zone) *Zone {
	name = lc(name)
	now := time.Now()
	z := &Zone{
		Name: name, Signed: signed, Parent: parent,
		Records: map[string]map[uint16][]dns.RR{}, Children: map[string]*Delegation{},
		SigInception: now.Add(-48 * time.Hour), SigExpiration: now.Add(60 * 24 * time.Hour),
		sigCache: map[string]*dns.RRSIG{},
	}
	z.SOA = &dns.SOA{
		Hdr: dns.RR_Header{Name: name, Rrtype: dns.TypeSOA, Class: dns.ClassINET, Ttl: 3600},
		Ns:  "ns." + strings.TrimPrefix("."+name, "."), Mbox: "hostmaster." + strings.TrimPrefix("."+name, "."),
		Serial: 1, Refresh: 3600, Retry: 600, Expire: 86400, Minttl: 300,
	}
	if name == "." {
		z.SOA.Ns, z.SOA.Mbox = "ns.root-servers.test.", "hostmaster.root-servers.test."
	}
	z.put(z.SOA)
	if signed {
		z.Keys = []*KeyPair{NewKey(name, 257, dns.ECDSAP256SHA256)}
		z.put(z.Keys[0].Key)
	}
	w.Zones[name] = z
	return z
}

func (z *Zone) put(rr dns.RR) {
	o := lc(rr.Header().Name)
	if z.Records[o] == nil {
		z.Records[o] = map[uint16][]dns.RR{}
	}
	z.Records[o][rr.Header().Rrtype] = append(z.Records[o][rr.Header().Rrtype], rr)
}

func (z *Zone) setNS(hosts []string) {
	delete(z.Records[z.Name], dns.TypeNS)
	for _, h := range hosts {
		z.put(&dns.NS{Hdr: dns.RR_Header{Name: z.Name, Rrtype: dns.TypeNS, Class: dns.ClassINET, Ttl: 3600}, Ns: dns.Fqdn(h)})
	}
}

// Add publishes records in the zone (presentation format), replacing nothing.
func (z *Zone) Add(rrs ...string) *Zone {
	z.mu.Lock()
	defer z.mu.Unlock()
	for _, s := range rrs {
		rr, err := dns.NewRR(s)
		if err != nil || rr == nil {
			panic(fmt.Sprintf("bad RR %q: %v", s, err))
		}
		z.put(rr)
	}
	z.sigCache = map[string]*dns.RRSIG{}
	return z
}

// AddRR publishes already built records.
func (z *Zone) AddRR(rrs ...dns.RR) *Zone {
	z.mu.Lock()
	defer z.mu.Unlock()
	for _, rr := range rrs {
		z.put(rr)
	}
	z.sigCache = map[string]*dns.RRSIG{}
	return z
}

// Remove deletes an RRset.
func (z *Zone) Remove(owner string, t uint16) {
	z.mu.Lock()
	defer z.mu.Unlock()
	delete(z.Records[lc(owner)], t)
	if len(z.Records[lc(owner)]) == 0 {
		delete(z.Records, lc(owner))
	}
}

// ZoneOpts configures AddZone.
type ZoneOpts struct {
	Signed     bool
	PublishDS  bool // parent publishes a DS (only meaningful when Signed)
	WrongDS    bool // parent's DS describes a key the child does not hold
	NSTTL      uint32
	DSTTL      uint32
	NSHosts    []string // default: ns1.<zone>
	NoGlue     bool
	SameServer *Server // serve the child on this (e.g. the parent's) server instead of a new one
	Alg        uint8
}

// ParentOf returns the closest enclosing existing zone of name (not name itself).
func (w *World) ParentOf(name string) *Zone {
	name = lc(name)
	labels := dns.SplitDomainName(name)
	for i := 1; i <= len(labels); i++ {
		p := "."
		if i < len(labels) {
			p = lc(strings.Join(labels[i:], "."))
		}
		if z, ok := w.Zones[p]; ok {
			return z
		}
	}
	return w.Root
}

// AddZone creates a child zone, its server, and the delegation in its parent.
func (w *World) AddZone(name string, o ZoneOpts) *Zone {
	w.mu.Lock()
	defer w.mu.Unlock()
	name = lc(name)
	parent := w.ParentOf(name)
	z := w.newZone(name, o.Signed, parent)
	if o.Signed && o.Alg != 0 && o.Alg != dns.ECDSAP256SHA256 {
		delete(z.Records[name], dns.TypeDNSKEY)
		z.Keys = []*KeyPair{NewKey(name, 257, o.Alg)}
		z.put(z.Keys[0].Key)
	}
	srv := o.SameServer
	if srv == nil {
		srv = w.NewServer(name)
	}
	srv.Attach(z)
	if o.NSTTL == 0 {
		o.NSTTL = 3600
	}
	if o.DSTTL == 0 {
		o.DSTTL = 3600
	}
	hosts := o.NSHosts
	if len(hosts) == 0 {
		hosts = []string{"ns1." + strings.TrimPrefix("."+name, ".")}
	}
	z.setNS(hosts)
	d := &Delegation{Child: name, NS: hosts, NSTTL: o.NSTTL, DSTTL: o.DSTTL}
	for _, h := range hosts {
		h = lc(h)
		if dns.IsSubDomain(name, h) {
			a := &dns.A{Hdr: dns.RR_Header{Name: h, Rrtype: dns.TypeA, Class: dns.ClassINET, Ttl: o.NSTTL}, A: srv.IP}
			z.put(a)
			if !o.NoGlue {
				d.Glue = append(d.Glue, dns.Copy(a))
			}
		}
	}
	if o.Signed && o.PublishDS {
		k := z.Keys[0]
		if o.WrongDS {
			k = NewKey(name, 257, dns.ECDSAP256SHA256)
		}
		ds := k.Key.ToDS(dns.SHA256)
		ds.Hdr.Ttl = o.DSTTL
		d.DS = []dns.RR{ds}
	}
	parent.mu.Lock()
	parent.Children[name] = d
	parent.sigCache = map[string]*dns.RRSIG{}
	parent.mu.Unlock()
	return z
}

// AddServer starts one more authoritative server for an existing zone and
// publishes it: a new in-zone name server host nsN.<zone> with its own
// advertised address, added to the zone's NS RRset, to the zone's address
// records and to the parent's delegation (NS + glue). Use it for zones whose
// servers must behave differently from one another (srv.SetBehaviour).
func (w *World) AddServer(zoneName string) *Server {
	w.mu.Lock()
	defer w.mu.Unlock()
	z := w.Zones[lc(zoneName)]
	if z == nil {
		panic("AddServer: no zone " + zoneName)
	}
	srv := w.NewServer(z.Name)
	srv.Attach(z)
	host := fmt.Sprintf("ns%d.%s", len(z.Servers), strings.TrimPrefix("."+z.Name, "."))
	if z.Name == "." {
		host = fmt.Sprintf("ns%d.root-servers.test.", len(z.Servers))
	}
	z.mu.Lock()
	z.put(&dns.NS{Hdr: dns.RR_Header{Name: z.Name, Rrtype: dns.TypeNS, Class: dns.ClassINET, Ttl: 3600}, Ns: host})
	a := &dns.A{Hdr: dns.RR_Header{Name: host, Rrtype: dns.TypeA, Class: dns.ClassINET, Ttl: 3600}, A: srv.IP}
	if dns.IsSubDomain(z.Name, host) {
		z.put(a)
	}
	z.sigCache = map[string]*dns.RRSIG{}
	z.mu.Unlock()
	if z.Parent != nil {
		z.Parent.mu.Lock()
		if d := z.Parent.Children[z.Name]; d != nil {
			d.NS = append(d.NS, host)
			g := dns.Copy(a)
			g.Header().Ttl = d.NSTTL
			d.Glue = append(d.Glue, g)
		}
		z.Parent.sigCache = map[string]*dns.RRSIG{}
		z.Parent.mu.Unlock()
	}
	return srv
}

// Delegation returns the parent's delegation record for a zone.
func (w *World) Delegation(name string) *Delegation {
	z := w.Zones[lc(name)]
	if z == nil || z.Parent == nil {
		return nil
	}
	return z.Parent.Children[z.Name]
}

// ---------------------------------------------------------------- signing

func (z *Zone) sign(rrset []dns.RR) *dns.RRSIG {
	return z.signWith(rrset, z.Keys[0], rrset[0].Header().Name)
}

// signWith signs rrset; owner is the name the signature is attached to, and
// labelsFrom the name whose label count goes into the RRSIG (the wildcard for
// expanded answers).
func (z *Zone) signWith(rrset []dns.RR, k *KeyPair, labelsFrom string) *dns.RRSIG {
	hdr := rrset[0].Header()
	ck := fmt.Sprintf("%s/%d/%s/%d/%d", lc(hdr.Name), hdr.Rrtype, labelsFrom, k.Key.KeyTag(), len(rrset))
	for _, rr := range rrset {
		ck += "|" + rr.String()
	}
	if s, ok := z.sigCache[ck]; ok {
		return dns.Copy(s).(*dns.RRSIG)
	}
	labels := dns.CountLabel(labelsFrom)
	if strings.HasPrefix(labelsFrom, "*.") {
		labels--
	}
	sig := &dns.RRSIG{
		Hdr:         dns.RR_Header{Name: hdr.Name, Rrtype: dns.TypeRRSIG, Class: hdr.Class, Ttl: hdr.Ttl},
		TypeCovered: hdr.Rrtype, Algorithm: k.Key.Algorithm, Labels: uint8(labels), OrigTtl: hdr.Ttl,
		Expiration: uint32(z.SigExpiration.Unix()), Inception: uint32(z.SigInception.Unix()),
		KeyTag: k.Key.KeyTag(), SignerName: z.Name,
	}
	var signer crypto.Signer
	switch p := k.Priv.(type) {
	case *ecdsa.PrivateKey:
		signer = p
	case ed25519.PrivateKey:
		signer = p
	case crypto.Signer:
		signer = p
	}
	// Sign wants the records under the wildcard owner for expanded answers.
	toSign := rrset
	if labelsFrom != hdr.Name {
		toSign = make([]dns.RR, len(rrset))
		for i, rr := range rrset {
			c := dns.Copy(rr)
			c.Header().Name = labelsFrom
			toSign[i] = c
		}
		sig.Hdr.Name = labelsFrom
	}
	if err := sig.Sign(signer, toSign); err != nil {
		panic(fmt.Sprintf("sign %s: %v", hdr.Name, err))
	}
	sig.Hdr.Name = hdr.Name
	z.sigCache[ck] = sig
	return dns.Copy(sig).(*dns.RRSIG)
}

// ---------------------------------------------------------------- NSEC chain

// owners returns every name that owns data or is a delegation point, in
// canonical order (apex first).
func (z *Zone) owners() []string {
	set := map[string]bool{}
	for o := range z.Records {
		set[o] = true
	}
	for c, d := range z.Children {
		if !d.Removed {
			set[c] = true
		}
	}
	out := make([]string, 0, len(set))
	for o := range set {
		// names below a delegation (glue) are occluded: not in the chain
		if z.occluded(o) {
			continue
		}
		out = append(out, o)
	}
	sort.Slice(out, func(i, j int) bool { return CanonicalLess(out[i], out[j]) })
	return out
}

// cutAbove returns the delegation at or above name (excluding the apex), if any.
func (z *Zone) cutAbove(name string) *Delegation {
	name = lc(name)
	labels := dns.SplitDomainName(name)
	apexLabels := dns.CountLabel(z.Name)
	// walk from the top (closest to apex) down
	for i := len(labels) - apexLabels - 1; i >= 0; i-- {
		cand := lc(strings.Join(labels[i:], "."))
		if d, ok := z.Children[cand]; ok && !d.Removed {
			return d
		}
	}
	return nil
}

func (z *Zone) occluded(name string) bool {
	d := z.cutAbove(name)
	return d != nil && d.Child != lc(name)
}

func (z *Zone) typesAt(owner string) []uint16 {
	var ts []uint16
	if d, ok := z.Children[owner]; ok && !d.Removed && owner != z.Name {
		ts = append(ts, dns.TypeNS)
		if len(d.DS) > 0 {
			ts = append(ts, dns.TypeDS)
		}
	} else {
		for t := range z.Records[owner] {
			ts = append(ts, t)
		}
	}
	ts = append(ts, dns.TypeRRSIG, dns.TypeNSEC)
	sort.Slice(ts, func(i, j int) bool { return ts[i] < ts[j] })
	return ts
}

// nsecFor returns the NSEC record owned by owners[i].
func (z *Zone) nsecAt(owners []string, i int) *dns.NSEC {
	next := owners[(i+1)%len(owners)]
	return &dns.NSEC{
		Hdr:        dns.RR_Header{Name: owners[i], Rrtype: dns.TypeNSEC, Class: dns.ClassINET, Ttl: z.SOA.Minttl},
		NextDomain: next, TypeBitMap: z.typesAt(owners[i]),
	}
}

// coveringNSEC returns the NSEC that matches (exact) or covers name.
func (z *Zone) coveringNSEC(name string) *dns.NSEC {
	name = lc(name)
	os := z.owners()
	idx := len(os) - 1
	for i, o := range os {
		if o == name {
			return z.nsecAt(os, i)
		}
		if CanonicalLess(name, o) {
			idx = i - 1
			break
		}
	}
	if idx < 0 {
		idx = len(os) - 1
	}
	return z.nsecAt(os, idx)
}

// exists reports whether name owns data, is a delegation, or is an empty non-terminal.
func (z *Zone) exists(name string) (direct bool, ent bool) {
	name = lc(name)
	if _, ok := z.Records[name]; ok {
		return true, false
	}
	if d, ok := z.Children[name]; ok && !d.Removed {
		return true, false
	}
	for _, o := range z.owners() {
		if o != name && dns.IsSubDomain(name, o) {
			return false, true
		}
	}
	return false, false
}

// closestEncloser returns the longest existing ancestor of name inside the zone.
func (z *Zone) closestEncloser(name string) string {
	labels := dns.SplitDomainName(lc(name))
	for i := 1; i < len(labels); i++ {
		cand := lc(strings.Join(labels[i:], "."))
		if !dns.IsSubDomain(z.Name, cand) {
			break
		}
		if d, e := z.exists(cand); d || e {
			return cand
		}
	}
	return z.Name
}

// CanonicalLess is RFC 4034 §6.1 canonical name order on presentation names
// without escapes (the generator only uses plain labels).
func CanonicalLess(a, b string) bool {
	la, lb := dns.SplitDomainName(lc(a)), dns.SplitDomainName(lc(b))
	i, j := len(la)-1, len(lb)-1
	for i >= 0 && j >= 0 {
		if la[i] != lb[j] {
			return la[i] < lb[j]
		}
		i--
		j--
	}
	return i < 0 && j >= 0
}
