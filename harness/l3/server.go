//go:build verif

package l3

import (
	"encoding/binary"
	"fmt"
	"io"
	"net"
	"sort"
	"strings"
	"sync"
	"sync/atomic"
	"time"

	"github.com/miekg/dns"
)

// Behaviour scripts what a server does with one query before/after the
// honest answer is computed.
type Behaviour struct {
	// Drop: do not answer at all (UDP and TCP).
	Drop func(q dns.Question, tcp bool) bool
	// Delay before answering.
	Delay func(q dns.Question, tcp bool) time.Duration
	// Tamper rewrites the honest response (may return a different message,
	// or nil to drop).
	Tamper func(q dns.Question, honest *dns.Msg, tcp bool) *dns.Msg
	// Pre emits extra datagrams before the real answer (wrong id / wrong question); UDP only.
	Pre func(req *dns.Msg) []*dns.Msg
	// Rcode, when non-nil and returning ≥ 0, answers with that rcode and no data.
	Rcode func(q dns.Question) int
	// TruncateUDP answers every UDP query with TC=1 and no data.
	TruncateUDP bool
	// ResetTCP closes TCP connections without answering.
	ResetTCP bool
}

// Server is one authoritative socket pair (UDP+TCP on one loopback port),
// advertised to the resolver under a TEST-NET address.
type Server struct {
	Label string
	IP    net.IP // advertised address (TEST-NET), port 53
	Addr  string // real loopback address

	mu    sync.Mutex
	zones []*Zone
	B     Behaviour

	UDPQueries atomic.Int64
	TCPQueries atomic.Int64
	TCPConns   atomic.Int64
	ByQ        map[string]int // "name/type" → count
	Log        []string       // chronological "proto name type"

	pc   net.PacketConn
	ln   net.Listener
	done chan struct{}
}

var testNets = [][3]byte{{198, 51, 100}, {203, 0, 113}, {192, 0, 2}}

// localAddrs are this machine's interface addresses: the resolver refuses
// glue that points at one of them, so they are never advertised.
var localAddrs = func() map[string]bool {
	out := map[string]bool{}
	as, _ := net.InterfaceAddrs()
	for _, a := range as {
		if n, ok := a.(*net.IPNet); ok {
			out[n.IP.String()] = true
		}
	}
	return out
}()

// NewServer starts a server on loopback and allocates its advertised address.
func (w *World) NewServer(label string) *Server {
	var ip net.IP
	for {
		n := w.nextIP
		w.nextIP++
		tn := testNets[(n/250)%3]
		ip = net.IPv4(tn[0], tn[1], tn[2], byte(1+n%250))
		if !localAddrs[ip.String()] {
			break
		}
	}
	var pc net.PacketConn
	var ln net.Listener
	var err error
	for try := 0; try < 50; try++ {
		pc, err = net.ListenPacket("udp", "127.0.0.1:0")
		if err != nil {
			panic(err)
		}
		ln, err = net.Listen("tcp", pc.LocalAddr().String())
		if err == nil {
			break
		}
		pc.Close()
	}
	if err != nil {
		panic(err)
	}
	s := &Server{Label: label, IP: ip, Addr: pc.LocalAddr().String(), pc: pc, ln: ln, ByQ: map[string]int{}, done: make(chan struct{})}
	w.Servers = append(w.Servers, s)
	w.AddrMap[net.JoinHostPort(ip.String(), "53")] = s.Addr
	go s.serveUDP()
	go s.serveTCP()
	return s
}

// Attach makes the server authoritative for z.
func (s *Server) Attach(z *Zone) {
	s.mu.Lock()
	s.zones = append(s.zones, z)
	s.mu.Unlock()
	z.Servers = append(z.Servers, s)
}

// Detach stops serving z on this server (it answers REFUSED for it afterwards).
func (s *Server) Detach(z *Zone) {
	s.mu.Lock()
	defer s.mu.Unlock()
	for i, x := range s.zones {
		if x == z {
			s.zones = append(s.zones[:i], s.zones[i+1:]...)
			return
		}
	}
}

// SetBehaviour replaces the script.
func (s *Server) SetBehaviour(b Behaviour) {
	s.mu.Lock()
	s.B = b
	s.mu.Unlock()
}

// Close stops the listeners.
func (s *Server) Close() {
	select {
	case <-s.done:
	default:
		close(s.done)
	}
	s.pc.Close()
	s.ln.Close()
}

// Close stops every server of the world.
func (w *World) Close() {
	for _, s := range w.Servers {
		s.Close()
	}
}

// TotalQueries sums datagrams and TCP queries received by every server.
func (w *World) TotalQueries() (udp, tcp, conns int64) {
	for _, s := range w.Servers {
		udp += s.UDPQueries.Load()
		tcp += s.TCPQueries.Load()
		conns += s.TCPConns.Load()
	}
	return
}

func (s *Server) note(req *dns.Msg, proto string) {
	if len(req.Question) == 0 {
		return
	}
	q := req.Question[0]
	s.mu.Lock()
	s.ByQ[fmt.Sprintf("%s/%d", lc(q.Name), q.Qtype)]++
	if len(s.Log) < 4096 {
		s.Log = append(s.Log, fmt.Sprintf("%s %s %d", proto, lc(q.Name), q.Qtype))
	}
	s.mu.Unlock()
}

// Asked returns how often (name, type) was asked of this server.
func (s *Server) Asked(name string, t uint16) int {
	s.mu.Lock()
	defer s.mu.Unlock()
	return s.ByQ[fmt.Sprintf("%s/%d", lc(name), t)]
}

func (s *Server) behaviour() Behaviour {
	s.mu.Lock()
	defer s.mu.Unlock()
	return s.B
}

func (s *Server) respond(req *dns.Msg, tcp bool) (pre []*dns.Msg, resp *dns.Msg) {
	if len(req.Question) != 1 {
		m := new(dns.Msg)
		m.SetRcode(req, dns.RcodeFormatError)
		return nil, m
	}
	b := s.behaviour()
	q := req.Question[0]
	if b.Drop != nil && b.Drop(q, tcp) {
		return nil, nil
	}
	if b.Delay != nil {
		if d := b.Delay(q, tcp); d > 0 {
			select {
			case <-time.After(d):
			case <-s.done:
				return nil, nil
			}
		}
	}
	if !tcp && b.TruncateUDP {
		m := new(dns.Msg)
		m.SetReply(req)
		m.Truncated = true
		return nil, m
	}
	if b.Rcode != nil {
		if rc := b.Rcode(q); rc >= 0 {
			m := new(dns.Msg)
			m.SetRcode(req, rc)
			return nil, m
		}
	}
	m := s.Honest(req)
	if b.Tamper != nil {
		m = b.Tamper(q, m, tcp)
	}
	if !tcp && b.Pre != nil {
		pre = b.Pre(req)
	}
	return pre, m
}

func (s *Server) serveUDP() {
	buf := make([]byte, 65535)
	for {
		n, addr, err := s.pc.ReadFrom(buf)
		if err != nil {
			return
		}
		req := new(dns.Msg)
		if req.Unpack(buf[:n]) != nil {
			continue
		}
		s.UDPQueries.Add(1)
		s.note(req, "udp")
		go func(req *dns.Msg, addr net.Addr) {
			pre, resp := s.respond(req, false)
			for _, p := range pre {
				if b, err := p.Pack(); err == nil {
					s.pc.WriteTo(b, addr)
				}
			}
			if resp == nil {
				return
			}
			size := 512
			if o := req.IsEdns0(); o != nil {
				size = int(o.UDPSize())
			}
			b, err := resp.Pack()
			if err == nil && len(b) > size {
				t := new(dns.Msg)
				t.SetReply(req)
				t.Truncated = true
				t.Rcode = resp.Rcode
				b, err = t.Pack()
			}
			if err == nil {
				s.pc.WriteTo(b, addr)
			}
		}(req, addr)
	}
}

func (s *Server) serveTCP() {
	for {
		c, err := s.ln.Accept()
		if err != nil {
			return
		}
		s.TCPConns.Add(1)
		go func(c net.Conn) {
			defer c.Close()
			for {
				c.SetReadDeadline(time.Now().Add(10 * time.Second))
				var l [2]byte
				if _, err := io.ReadFull(c, l[:]); err != nil {
					return
				}
				buf := make([]byte, binary.BigEndian.Uint16(l[:]))
				if _, err := io.ReadFull(c, buf); err != nil {
					return
				}
				req := new(dns.Msg)
				if req.Unpack(buf) != nil {
					return
				}
				s.TCPQueries.Add(1)
				s.note(req, "tcp")
				if s.behaviour().ResetTCP {
					if tc, ok := c.(*net.TCPConn); ok {
						tc.SetLinger(0)
					}
					return
				}
				_, resp := s.respond(req, true)
				if resp == nil {
					// stall: keep the connection open, never answer
					select {
					case <-s.done:
					case <-time.After(30 * time.Second):
					}
					return
				}
				b, err := resp.Pack()
				if err != nil {
					return
				}
				out := make([]byte, 2+len(b))
				binary.BigEndian.PutUint16(out, uint16(len(b)))
				copy(out[2:], b)
				if _, err := c.Write(out); err != nil {
					return
				}
			}
		}(c)
	}
}

// ---------------------------------------------------------------- honest answers

func (s *Server) zoneFor(q dns.Question) *Zone {
	s.mu.Lock()
	defer s.mu.Unlock()
	name := lc(q.Name)
	var best *Zone
	for _, z := range s.zones {
		if !dns.IsSubDomain(z.Name, name) {
			continue
		}
		// DS lives in the parent: at a zone's own apex a DS query belongs to
		// the parent zone if this server has it.
		if q.Qtype == dns.TypeDS && z.Name == name && name != "." {
			continue
		}
		if best == nil || dns.CountLabel(z.Name) > dns.CountLabel(best.Name) {
			best = z
		}
	}
	return best
}

// Honest computes the RFC-conformant authoritative response.
func (s *Server) Honest(req *dns.Msg) *dns.Msg {
	q := req.Question[0]
	do := false
	if o := req.IsEdns0(); o != nil {
		do = o.Do()
	}
	m := new(dns.Msg)
	m.SetReply(req)
	m.RecursionAvailable = false
	if o := req.IsEdns0(); o != nil {
		m.SetEdns0(4096, do)
	}
	z := s.zoneFor(q)
	if z == nil || q.Qclass != dns.ClassINET {
		m.Rcode = dns.RcodeRefused
		return m
	}
	z.Answer(q, do, m)
	return m
}

func (z *Zone) addSigned(dst *[]dns.RR, rrset []dns.RR, do bool, labelsFrom string) {
	*dst = append(*dst, rrset...)
	if z.Signed && do && len(rrset) > 0 {
		lf := labelsFrom
		if lf == "" {
			lf = rrset[0].Header().Name
		}
		*dst = append(*dst, z.signWith(rrset, z.Keys[0], lf))
	}
}

func cloneSet(rrs []dns.RR, owner string) []dns.RR {
	out := make([]dns.RR, len(rrs))
	for i, rr := range rrs {
		out[i] = dns.Copy(rr)
		if owner != "" {
			out[i].Header().Name = owner
		}
	}
	return out
}

func (z *Zone) addNSEC(dst *[]dns.RR, name string, do bool, seen map[string]bool) {
	if !z.Signed || !do {
		return
	}
	n := z.coveringNSEC(name)
	if seen[n.Hdr.Name] {
		return
	}
	seen[n.Hdr.Name] = true
	z.addSigned(dst, []dns.RR{n}, do, "")
}

// Answer fills m with the authoritative answer of the zone for q.
func (z *Zone) Answer(q dns.Question, do bool, m *dns.Msg) {
	z.mu.Lock()
	defer z.mu.Unlock()
	name := lc(q.Name)
	seen := map[string]bool{}

	// 1. referral?
	if d := z.cutAbove(name); d != nil && !(q.Qtype == dns.TypeDS && d.Child == name) {
		var ns []dns.RR
		for _, h := range d.NS {
			ns = append(ns, &dns.NS{Hdr: dns.RR_Header{Name: d.Child, Rrtype: dns.TypeNS, Class: dns.ClassINET, Ttl: d.NSTTL}, Ns: dns.Fqdn(h)})
		}
		m.Ns = append(m.Ns, ns...)
		if len(d.DS) > 0 {
			z.addSigned(&m.Ns, cloneSet(d.DS, ""), do, "")
		} else {
			z.addNSEC(&m.Ns, d.Child, do, seen)
		}
		m.Extra = append(cloneSet(d.Glue, ""), m.Extra...)
		return
	}
	m.Authoritative = true

	// 2. DS at a delegation point (we are the parent)
	if d, ok := z.Children[name]; ok && !d.Removed && q.Qtype == dns.TypeDS {
		if len(d.DS) > 0 {
			z.addSigned(&m.Answer, cloneSet(d.DS, ""), do, "")
			return
		}
		z.addSigned(&m.Ns, []dns.RR{z.SOA}, do, "")
		z.addNSEC(&m.Ns, name, do, seen)
		return
	}

	direct, ent := z.exists(name)
	if direct {
		sets := z.Records[name]
		if rrs, ok := sets[q.Qtype]; ok && len(rrs) > 0 {
			z.addSigned(&m.Answer, cloneSet(rrs, q.Name), do, "")
			return
		}
		if rrs, ok := sets[dns.TypeCNAME]; ok && q.Qtype != dns.TypeCNAME {
			z.addSigned(&m.Answer, cloneSet(rrs, q.Name), do, "")
			return
		}
		z.addSigned(&m.Ns, []dns.RR{z.SOA}, do, "")
		z.addNSEC(&m.Ns, name, do, seen)
		return
	}
	if ent {
		z.addSigned(&m.Ns, []dns.RR{z.SOA}, do, "")
		z.addNSEC(&m.Ns, name, do, seen)
		return
	}

	// DNAME at an ancestor inside the zone
	labels := dns.SplitDomainName(name)
	for i := 1; i < len(labels); i++ {
		anc := lc(strings.Join(labels[i:], "."))
		if !dns.IsSubDomain(z.Name, anc) {
			break
		}
		if dn, ok := z.Records[anc][dns.TypeDNAME]; ok && len(dn) > 0 {
			target := dn[0].(*dns.DNAME).Target
			z.addSigned(&m.Answer, cloneSet(dn, ""), do, "")
			prefix := strings.Join(labels[:i], ".")
			syn := &dns.CNAME{Hdr: dns.RR_Header{Name: q.Name, Rrtype: dns.TypeCNAME, Class: dns.ClassINET, Ttl: dn[0].Header().Ttl},
				Target: dns.Fqdn(prefix + "." + strings.TrimSuffix(target, "."))}
			if target == "." {
				syn.Target = dns.Fqdn(prefix)
			}
			m.Answer = append(m.Answer, syn)
			return
		}
	}

	// 3. wildcard
	ce := z.closestEncloser(name)
	wc := "*." + strings.TrimPrefix("."+ce, ".")
	if ce == "." {
		wc = "*."
	}
	if sets, ok := z.Records[wc]; ok {
		rrs := sets[q.Qtype]
		if len(rrs) == 0 && q.Qtype != dns.TypeCNAME {
			rrs = sets[dns.TypeCNAME]
		}
		if len(rrs) > 0 {
			z.addSigned(&m.Answer, cloneSet(rrs, q.Name), do, wc)
			z.addNSEC(&m.Ns, name, do, seen) // next closer does not exist
			return
		}
		// wildcard NODATA
		z.addSigned(&m.Ns, []dns.RR{z.SOA}, do, "")
		z.addNSEC(&m.Ns, name, do, seen)
		z.addNSEC(&m.Ns, wc, do, seen)
		return
	}

	// 4. NXDOMAIN
	m.Rcode = dns.RcodeNameError
	z.addSigned(&m.Ns, []dns.RR{z.SOA}, do, "")
	z.addNSEC(&m.Ns, name, do, seen)
	z.addNSEC(&m.Ns, wc, do, seen)
}

// SortRRs gives a canonical textual form of a record list (TTL zeroed) for comparisons.
func SortRRs(rrs []dns.RR) []string {
	out := make([]string, 0, len(rrs))
	for _, rr := range rrs {
		c := dns.Copy(rr)
		c.Header().Ttl = 0
		c.Header().Name = lc(c.Header().Name)
		out = append(out, c.String())
	}
	sort.Strings(out)
	return out
}
