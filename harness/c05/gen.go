//go:build verif

package main

import (
	"crypto/sha256"
	"encoding/binary"
	"encoding/hex"
	"fmt"
	"hash/fnv"
	"net"
	"strings"

	"github.com/miekg/dns"
	"github.com/semihalev/sdns/internal/verif/vlib"
	"github.com/semihalev/sdns/middleware/cache"
)

// ---------------------------------------------------------------- packet shapes

func mixCase(r *vlib.R, s string) string {
	b := []byte(s)
	for i, c := range b {
		if c >= 'a' && c <= 'z' && r.Chance(1, 3) {
			b[i] = c - 32
		}
	}
	return string(b)
}

// wireName encodes labels without compression.
func wireName(labels []string) []byte {
	var b []byte
	for _, l := range labels {
		b = append(b, byte(len(l)))
		b = append(b, l...)
	}
	return append(b, 0)
}

func opt16(code uint16, data []byte) []byte {
	b := binary.BigEndian.AppendUint16(nil, code)
	b = binary.BigEndian.AppendUint16(b, uint16(len(data)))
	return append(b, data...)
}

// genOptions returns the OPT rdata: a mix of well-formed and malformed options.
func genOptions(r *vlib.R, weird bool) []byte {
	var rd []byte
	n := r.Intn(4)
	if !weird && r.Chance(1, 3) {
		n = 0
	}
	for i := 0; i < n; i++ {
		k := r.Intn(12)
		if !weird {
			k = r.Intn(6)
		}
		switch k {
		case 0: // cookie
			l := vlib.Pick(r, []int{8, 8, 16, 24, 40, 32})
			if weird {
				l = vlib.Pick(r, []int{8, 7, 9, 40, 41, 0, 1, 39})
			}
			rd = append(rd, opt16(10, r.Bytes(l))...)
		case 1: // nsid
			rd = append(rd, opt16(3, r.Bytes(vlib.Pick(r, []int{0, 0, 3, 16})))...)
		case 2: // keepalive
			l := vlib.Pick(r, []int{0, 2})
			if weird {
				l = vlib.Pick(r, []int{0, 1, 2, 3, 4})
			}
			rd = append(rd, opt16(11, r.Bytes(l))...)
		case 3: // padding
			rd = append(rd, opt16(12, make([]byte, vlib.Pick(r, []int{0, 1, 12, 64})))...)
		case 4: // client subnet
			fam, mask, scope, alen := 1, 24, 0, 3
			switch r.Intn(9) {
			case 0:
				fam, mask, alen = 2, 56, 7
			case 1:
				fam, mask, alen = 0, 0, 0
			case 2:
				if weird {
					fam, mask, alen = 0, 8, 1
				}
			case 3:
				if weird {
					mask = 33
				}
			case 4:
				if weird {
					scope = 33
				}
			case 5:
				if weird {
					fam, mask, alen = 2, 129, 16
				}
			case 6:
				if weird {
					fam = 3
				}
			case 7:
				mask, alen = 32, 4
			case 8:
				fam, mask, scope, alen = 2, 128, 128, 16
			}
			d := []byte{byte(fam >> 8), byte(fam), byte(mask), byte(scope)}
			d = append(d, r.Bytes(alen)...)
			if weird && r.Chance(1, 6) {
				d = d[:r.Intn(4)]
			}
			rd = append(rd, opt16(8, d)...)
		case 5: // second cookie
			rd = append(rd, opt16(10, r.Bytes(8))...)
			if r.Chance(1, 2) {
				rd = append(rd, opt16(10, r.Bytes(8))...)
			}
		case 6: // unknown / unvalidated codes
			rd = append(rd, opt16(vlib.Pick(r, []uint16{1, 2, 5, 6, 7, 9, 13, 14, 15, 16, 65001, 0}), r.Bytes(r.Intn(6)))...)
		case 7: // EDE from a client
			rd = append(rd, opt16(15, append([]byte{0, 3}, []byte("x")...))...)
		case 8: // option length overruns the rdata
			o := opt16(vlib.Pick(r, []uint16{3, 10, 12}), r.Bytes(8))
			binary.BigEndian.PutUint16(o[2:], uint16(8+1+r.Intn(300)))
			rd = append(rd, o...)
		case 9: // truncated option header
			rd = append(rd, r.Bytes(1+r.Intn(3))...)
		case 10:
			rd = append(rd, opt16(3, nil)...)
		default:
			rd = append(rd, opt16(12, nil)...)
		}
	}
	return rd
}

type pkt struct {
	b  []byte
	mo int // offset of the marker byte, -1 when the name carries none
}

// genPacket builds one query packet. labels is the question name (the label
// holding the marker ends in "-@"); weird selects the malformed stream.
func genPacket(r *vlib.R, labels []string, qtype, qclass uint16, weird bool) pkt {
	id := uint16(r.U64())
	flags := uint16(0x0100)
	switch r.Intn(12) {
	case 0:
		flags = 0x0100 | 0x0010 // CD
	case 1:
		flags = 0x0100 | 0x0020 // AD
	case 2:
		flags = 0x0100 | 0x0030
	case 3:
		if weird {
			flags = uint16(r.U64())
		}
	case 4:
		if weird {
			flags = 0x0100 | 1<<uint(r.Intn(16))
		}
	case 5:
		if weird {
			flags = 0x0100 | uint16(r.Intn(16))<<11
		}
	case 6:
		if weird {
			flags = 0 // RD clear
		}
	case 7:
		flags = 0x0100 | 0x0040 // Z
	}
	qd, an, ns, ar := uint16(1), uint16(0), uint16(0), uint16(0)
	name := wireName(labels)
	mo := -1
	if i := strings.Index(string(name), "-@"); i >= 0 {
		mo = 12 + i + 1
	}
	if weird {
		switch r.Intn(14) {
		case 0: // compression pointer as the whole name
			name = []byte{0xC0, 0x0C}
			mo = -1
		case 1: // pointer after the first label
			name = append(append([]byte{}, name[:1+int(name[0])]...), 0xC0, 0x0C)
			if mo >= 12+len(name)-2 {
				mo = -1
			}
			_ = mo
		case 2: // reserved label type
			name = append([]byte{0x40 | 3, 'a', 'b', 'c'}, name...)
			mo = -1
		case 3: // 63-octet label in front
			name = append(append([]byte{63}, []byte(strings.Repeat("l", 63))...), name...)
			if mo >= 0 {
				mo += 64
			}
		case 4: // exactly 255 octets / 256 octets
			want := 255 + r.Intn(2)
			for len(name) < want {
				l := want - len(name) - 1
				if l > 63 {
					l = 63
				}
				if l < 1 {
					break
				}
				name = append(append([]byte{byte(l)}, []byte(strings.Repeat("p", l))...), name...)
				if mo >= 0 {
					mo += 1 + l
				}
			}
		case 5: // label runs past the packet (no root)
			name = name[:len(name)-1]
		case 6: // root name
			name = []byte{0}
			mo = -1
		}
	}
	b := binary.BigEndian.AppendUint16(nil, id)
	b = binary.BigEndian.AppendUint16(b, flags)
	body := append([]byte{}, name...)
	body = binary.BigEndian.AppendUint16(body, qtype)
	body = binary.BigEndian.AppendUint16(body, qclass)
	hasOPT := r.Chance(3, 4)
	if hasOPT {
		ar = 1
		udp := vlib.Pick(r, []uint16{1232, 4096, 512, 1232, 0, 511, 65535, 1233, 1231})
		xr, ver := byte(0), byte(0)
		z := uint16(0)
		if r.Chance(1, 2) {
			z = 0x8000
		}
		owner := []byte{0}
		typ := uint16(41)
		if weird {
			switch r.Intn(10) {
			case 0:
				xr = byte(1 + r.Intn(255))
			case 1:
				ver = byte(1 + r.Intn(3))
			case 2:
				z |= uint16(r.U64()) & 0x7fff
			case 3:
				owner = []byte{1, 'x', 0}
			case 4:
				typ = vlib.Pick(r, []uint16{1, 16, 250, 41})
			}
		}
		rd := genOptions(r, weird)
		rdlen := uint16(len(rd))
		if weird && r.Chance(1, 10) {
			rdlen = uint16(int(rdlen) + r.Range(-2, 3))
		}
		body = append(body, owner...)
		body = binary.BigEndian.AppendUint16(body, typ)
		body = binary.BigEndian.AppendUint16(body, udp)
		body = append(body, xr, ver)
		body = binary.BigEndian.AppendUint16(body, z)
		body = binary.BigEndian.AppendUint16(body, rdlen)
		body = append(body, rd...)
	}
	if weird {
		switch r.Intn(16) {
		case 0:
			qd = vlib.Pick(r, []uint16{0, 2})
		case 1:
			an = 1
		case 2:
			ns = 1
		case 3:
			ar = vlib.Pick(r, []uint16{0, 1, 2})
		case 4: // trailing garbage
			body = append(body, r.Bytes(1+r.Intn(12))...)
		case 5: // a second question
			body = append(body, wireName([]string{"second", "zt"})...)
			body = append(body, 0, 1, 0, 1)
			qd = 2
		case 6: // a real additional record after / instead of the OPT
			body = append(body, 0, 0, 1, 0, 1, 0, 0, 0, 60, 0, 4, 192, 0, 2, 1)
			ar++
		case 7: // truncate
			if len(body) > 2 {
				body = body[:r.Intn(len(body))]
			}
		case 8: // TSIG-looking record
			body = append(body, 0, 0, 250, 0, 255, 0, 0, 0, 0, 0, 0)
			ar++
		}
	}
	for _, c := range []uint16{qd, an, ns, ar} {
		b = binary.BigEndian.AppendUint16(b, c)
	}
	b = append(b, body...)
	if weird && r.Chance(1, 40) {
		b = b[:r.Intn(13)]
		mo = -1
	}
	if mo >= len(b) {
		mo = -1
	}
	return pkt{b: b, mo: mo}
}

// ---------------------------------------------------------------- generator

var scenarios = []string{"pos", "pos", "two", "cn1", "cn2", "cn3", "cnf1", "cnx1", "cns1", "cnl1", "sig", "sig", "cng", "cnu", "cnu", "nx", "nxs", "nd", "ede", "edn",
	"big", "mid", "cnb", "cnr", "cnr", "sf", "sfe", "ref", "tc", "aa", "nil", "zzz"}

func uniq(r *vlib.R, k *int) string {
	*k++
	return fmt.Sprintf("u%x%x", *k, r.Intn(4096))
}

func genConfig(r *vlib.R) string {
	hs := []string{"recovery"}
	rl := r.Chance(1, 3)
	if rl {
		hs = append(hs, "ratelimit")
	}
	// edns is part of every supported chain: without it the byte path has no
	// OPT layer at all (WriteWire contract), which is not a configuration the
	// property quantifies over.
	hs = append(hs, "edns")
	hosts := r.Chance(1, 2)
	if hosts {
		hs = append(hs, "hostsfile")
	}
	empty := r.Chance(1, 2)
	if empty {
		hs = append(hs, "as112")
	}
	hs = append(hs, "cache")
	secret := "-"
	if r.Chance(3, 4) {
		secret = vlib.Hex([]byte(vlib.Pick(r, []string{"s3cr3t", "x", strings.Repeat("k", 64)})))
	}
	nsid := "-"
	if r.Chance(1, 2) {
		nsid = vlib.Hex([]byte(vlib.Pick(r, []string{"ns1", "resolver-a.example"})))
	}
	crl := 0
	if rl {
		crl = vlib.Pick(r, []int{2, 3, 4, 8})
	}
	erl := 0
	if r.Chance(1, 4) {
		erl = vlib.Pick(r, []int{1, 2, 3})
	}
	prefetch := 0
	// (not together with the per-entry limiter: the background refresh replaces
	// entries at a random moment and the drop pattern of 1-3 token buckets
	// is then not reproducible)
	if r.Chance(1, 6) {
		prefetch = vlib.Pick(r, []int{50, 90})
	}
	return fmt.Sprintf("e2e new h=%s secret=%s nsid=%s crl=%d erl=%d prefetch=%d hosts=%s empty=%s rfc8198=%d rfc9520=%d",
		strings.Join(hs, ","), secret, nsid, crl, erl, prefetch, b01(hosts), b01(empty), b2i(!r.Chance(1, 4)), b2i(!r.Chance(1, 8)))
}

func b01(b bool) string {
	if b {
		return "1"
	}
	return "0"
}
func b2i(b bool) int {
	if b {
		return 1
	}
	return 0
}

// The per-entry limiter is one of 997 process-global token buckets chosen by
// a hash of the cache key, refilled per second: three isomorphic names only
// have isomorphic limiter state when their buckets are fresh. The generator
// therefore picks names whose buckets no earlier op of this process used.
var usedBuckets = map[int]map[uint64]bool{}

func bucketOf(name string, qt, qc uint16, cd bool) uint64 {
	key := cache.CacheKey{Question: dns.Question{Name: strings.ToLower(name), Qtype: qt, Qclass: qc}, CD: cd}.Hash()
	h := fnv.New64a()
	var b [8]byte
	binary.LittleEndian.PutUint64(b[:], key)
	h.Write(b[:])
	return h.Sum64() % 997
}

func erlOf(cfgLine string) int {
	for _, f := range strings.Fields(cfgLine) {
		if strings.HasPrefix(f, "erl=") {
			return vlib.Atoi(f[4:])
		}
	}
	return 0
}

func genQ(r *vlib.R, k *int, cfgLine string) string {
	for try := 0; ; try++ {
		line, name, qt, qc, cd := genQ1(r, k, cfgLine)
		erl := erlOf(cfgLine)
		if erl == 0 || !strings.Contains(name, "@") {
			return line
		}
		// (the driver resets the bucket pool before every such op, so only the
		// three names of one op must not collide with each other)
		usedBuckets[erl] = map[uint64]bool{}
		var bs []uint64
		fresh := true
		for _, m := range markers {
			b := bucketOf(strings.ReplaceAll(name, "@", string(m)), qt, qc, cd)
			for _, x := range bs {
				if x == b {
					fresh = false
				}
			}
			if usedBuckets[erl][b] {
				fresh = false
			}
			bs = append(bs, b)
		}
		if fresh || try > 200 {
			for _, b := range bs {
				usedBuckets[erl][b] = true
			}
			return line
		}
	}
}

func genQ1(r *vlib.R, k *int, cfgLine string) (string, string, uint16, uint16, bool) {
	scn := vlib.Pick(r, scenarios)
	u := uniq(r, k)
	name := mixCase(r, scn) + "." + u + "-@.zt."
	qt := vlib.Pick(r, []int{1, 1, 1, 1, 28, 16, 5, 15, 43, 46, 47, 50, 48, 255, 6, 65280, 0, 41})
	if scn == "big" || scn == "mid" || scn == "cnb" {
		qt = 16
	}
	if scn == "cnr" {
		qt = vlib.Pick(r, []int{12, 12, 15, 2, 33, 6, 1, 16})
	}
	args := []string{}
	add := func(k string, v any) { args = append(args, fmt.Sprintf("%s=%v", k, v)) }
	// special names: hosts file, empty zones, deep names under a cut
	special := r.Intn(14)
	if erlOf(cfgLine) > 0 && (special == 1 || special == 2) {
		special = 13 // marker-less names would share one entry-limiter bucket between the three clients
	}
	switch special {
	case 0:
		if strings.Contains(cfgLine, "hosts=1") {
			name = mixCase(r, vlib.Pick(r, []string{"host1", "host2", "only4", "foo.wild", "nohost", "canon", "alias"})) + "-@.zt."
			qt = vlib.Pick(r, []int{1, 28, 16, 5, 255})
		}
	case 1:
		if strings.Contains(cfgLine, "hosts=1") {
			name = vlib.Pick(r, []string{"10.2.0.192.in-addr.arpa.", "11.2.0.192.IN-ADDR.ARPA.", "99.2.0.192.in-addr.arpa."})
			qt = 12
		}
	case 2:
		if strings.Contains(cfgLine, "empty=1") {
			name = mixCase(r, vlib.Pick(r, []string{"1.0.0.10.in-addr.arpa.", "10.in-addr.arpa.", "5.168.192.in-addr.arpa.", "168.192.in-addr.arpa.", "1.d.f.ip6.arpa.", "4.3.2.1.in-addr.arpa.", "16.172.in-addr.arpa."}))
			qt = vlib.Pick(r, []int{12, 2, 6, 43, 1})
		}
	case 3, 4:
		name = mixCase(r, scn) + ".gone." + u + "-@.zt."
		add("cut", 1)
	case 5:
		add("fail", vlib.Pick(r, []string{"q", "z"}))
	case 6:
		name = mixCase(r, scn) + ".gone." + u + "-@.zt."
		add("cut", 1)
		add("fail", vlib.Pick(r, []string{"q", "z"}))
	}
	add("name", name)
	add("qt", qt)
	add("id", r.Intn(65536))
	qc := 1
	if r.Chance(1, 12) {
		qc = vlib.Pick(r, []int{3, 4, 255, 0})
		add("qc", qc)
	}
	if r.Chance(1, 10) {
		add("rd", 0)
	}
	cd := false
	if r.Chance(1, 4) {
		cd = true
		add("cd", 1)
	}
	if r.Chance(1, 5) {
		add("ad", 1)
	}
	if r.Chance(1, 6) {
		add("edns", 0)
	} else {
		add("usz", vlib.Pick(r, []int{1232, 1232, 4096, 512, 0, 600, 65535}))
		if r.Chance(1, 2) {
			add("do", 1)
		}
		if r.Chance(1, 25) {
			add("ver", 1)
		}
		add("ck", vlib.Pick(r, []string{"-", "-", "c", "c", "e", "s"}))
		if r.Chance(1, 3) {
			add("nsid", 1)
		}
		if r.Chance(1, 4) {
			add("ka", 1)
		}
		if r.Chance(1, 8) {
			add("pad", vlib.Pick(r, []int{1, 16}))
		}
		if r.Chance(1, 12) {
			add("ecs", 1)
		}
	}
	add("proto", vlib.Pick(r, []string{"udp", "udp", "tcp"}))
	if r.Chance(1, 5) {
		add("v6", 1)
	}
	warm := vlib.Pick(r, []string{"raw", "raw", "msg", "none"})
	add("warm", warm)
	if warm != "none" {
		add("shift", vlib.Pick(r, []int{0, 7, 100, 100, 150, 170}))
	}
	if r.Chance(1, 12) {
		// the packet waited in the engine's queue: within / beyond the 3 s query budget
		add("age", vlib.Pick(r, []int{1000, 2500, 3500, 5000, 60000}))
	}
	add("rep", vlib.Pick(r, []int{1, 1, 2, 3, 5}))
	add("ord", r.Intn(4))
	return "e2e q " + strings.Join(args, " "), name, uint16(qt), uint16(qc), cd
}

func genRaw(r *vlib.R, k *int) string {
	scn := vlib.Pick(r, []string{"pos", "pos", "sig", "nx", "cn1", "ede", "sf", "big"})
	u := uniq(r, k)
	labels := []string{mixCase(r, scn), u + "-@", "zt"}
	qt := vlib.Pick(r, []uint16{1, 1, 28, 16, 255, 0, 65280, 41, 46})
	qc := vlib.Pick(r, []uint16{1, 1, 1, 3, 255, 0, 2})
	p := genPacket(r, labels, qt, qc, r.Chance(3, 4))
	return fmt.Sprintf("e2e raw mo=%d proto=%s warm=%s ord=%d pkt=%s", p.mo, vlib.Pick(r, []string{"udp", "udp", "tcp"}),
		vlib.Pick(r, []string{"raw", "none"}), r.Intn(2), vlib.Hex(p.b))
}

func genOPTOp(r *vlib.R) string {
	var ip net.IP
	switch r.Intn(4) {
	case 0:
		ip = net.IP(r.Bytes(16))
	case 1: // 4-in-6
		ip = net.IPv4(r.Bytes(1)[0], r.Bytes(1)[0], 3, 4)
	case 2:
		ip = net.ParseIP("ffff:ffff:ffff:ffff:ffff:ffff:ffff:ffff")
	default:
		ip = net.IP(r.Bytes(4))
	}
	secret := r.Bytes(vlib.Pick(r, []int{0, 6, 32, 64, 194, 195, 196, 210}))
	ck := "-"
	dg := "-"
	addr := ip
	if v4 := ip.To4(); v4 != nil {
		addr = v4
	}
	if r.Chance(2, 3) {
		c := r.Bytes(8)
		ck = hex.EncodeToString(c)
		h := sha256.New()
		h.Write([]byte(addr.String()))
		h.Write([]byte(ck))
		h.Write(secret)
		dg = hex.EncodeToString(h.Sum(nil))
	}
	nsid := "-"
	if r.Chance(1, 2) {
		nsid = vlib.Hex(r.Bytes(vlib.Pick(r, []int{1, 3, 20})))
	}
	ec, et := "-", "-"
	if r.Chance(1, 2) {
		ec = fmt.Sprint(vlib.Pick(r, []int{0, 3, 13, 22, 65535, r.Intn(65536)}))
		et = vlib.Hex(r.Bytes(vlib.Pick(r, []int{0, 1, 24, 60})))
	}
	return fmt.Sprintf("opt build ne=%s do=%s udp=%d ip=%s al=%d secret=%s sl=%d ck=%s dg=%s nsid=%s nq=%s ka=%s ec=%s et=%s",
		vlib.B(r.Chance(1, 8)), vlib.B(r.Bool()), vlib.Pick(r, []int{1232, 1232, 512, 4096, 0, 65535, r.Intn(65536)}),
		vlib.Hex(ip), len(addr.String()), vlib.Hex(secret), len(secret), ck, dg, nsid, vlib.B(r.Bool()), vlib.B(r.Chance(1, 3)), ec, et)
}

func gen(r *vlib.R, n int, tier string, emit func(string)) {
	k := 0
	emit("pw new")
	emit("ar new")
	emit("opt new")
	emit("hit new")
	// flag algebra: every single bit, every opcode, then random words
	for i := 0; i < 16; i++ {
		emit(fmt.Sprintf("ar apply %d %d %d %s %s", 1<<uint(i), r.Intn(65536), 0, vlib.B(r.Bool()), vlib.B(r.Bool())))
		emit(fmt.Sprintf("ar apply %d %d %d f f", 0xffff&^(1<<uint(i)), r.Intn(65536), i))
		emit(fmt.Sprintf("ar clearad %d", 1<<uint(i)))
	}
	budget := n
	fn := n * 11 / 20 // function-level share
	for i := 0; i < fn; i++ {
		switch x := r.Intn(20); {
		case x < 9:
			scn := vlib.Pick(r, []string{"www", "a", "Mail", "x1"})
			labels := []string{mixCase(r, scn), vlib.Pick(r, []string{"example", "EXAMPLE", "ex-ample"}), "test"}
			p := genPacket(r, labels, vlib.Pick(r, []uint16{1, 28, 16, 255, 0, 65535, 41}), vlib.Pick(r, []uint16{1, 1, 3, 255, 0}), r.Chance(2, 3))
			emit("pw parse " + vlib.Hex(p.b))
		case x < 12:
			emit(fmt.Sprintf("ar apply %d %d %d %s %s", r.Intn(65536), r.Intn(65536), vlib.Pick(r, []int{0, 0, 0, r.Intn(16), r.Intn(64)}), vlib.B(r.Bool()), vlib.B(r.Bool())))
		case x < 13:
			switch r.Intn(4) {
			case 0:
				emit(fmt.Sprintf("ar clearad %d", r.Intn(65536)))
			case 1:
				emit(fmt.Sprintf("ar set rcode %d %d", r.Intn(65536), r.Intn(20)))
			case 2:
				emit(fmt.Sprintf("ar set ra %d 0", r.Intn(65536)))
			default:
				emit(fmt.Sprintf("ar set ad %d 0", r.Intn(65536)))
			}
		case x < 17:
			emit(genOPTOp(r))
		default:
			ttl := vlib.Pick(r, []int{5, 60, 300, 86400, 1, 2})
			el := r.Intn(ttl*1000+1500)/1000*1000 + 100 + r.Intn(800)
			emit(fmt.Sprintf("hit serve ttl=%d el=%d ad=%s cd=%s n=%d", ttl, el, vlib.B(r.Bool()), vlib.B(r.Bool()), r.Intn(7)))
		}
	}
	budget -= fn
	// the handler branches that exist twice: edns writer facts, ratelimit histories, as112 decisions
	for i := 0; i < n/25; i++ {
		labels := []string{mixCase(r, "www"), "example", "test"}
		p := genPacket(r, labels, vlib.Pick(r, []uint16{1, 28, 46}), 1, r.Chance(1, 4))
		emit(fmt.Sprintf("ed serve proto=%s pkt=%s", vlib.Pick(r, []string{"udp", "udp", "tcp", "doh"}), vlib.Hex(p.b)))
	}
	for c := 0; c < n/400+2; c++ {
		emit(fmt.Sprintf("rl new rate=%d", vlib.Pick(r, []int{0, 1, 2, 3, 5})))
		for i, m := 0, 4+r.Intn(9); i < m; i++ {
			ck := "-"
			if r.Chance(3, 4) {
				ck = fmt.Sprintf("%d:%s", 1+r.Intn(3), vlib.Pick(r, []string{"n", "g", "g", "b"}))
			}
			extra := ""
			if r.Chance(1, 8) {
				extra = " replay=1"
			} else if r.Chance(1, 25) {
				extra = " lo=1"
			}
			if r.Chance(1, 8) {
				extra += " ver=1" // an EDNS version the server does not speak: no cookie exchange, the token is still paid
			}
			emit(fmt.Sprintf("rl step proto=%s ck=%s%s", vlib.Pick(r, []string{"udp", "udp", "tcp"}), ck, extra))
		}
	}
	// ancestor walks (cut / failure-zone / witness lookups): every depth, the root, long labels
	emit("sx new")
	for i := 0; i < 40+n/500; i++ {
		depth := r.Intn(6)
		if r.Chance(1, 8) {
			depth = 6 + r.Intn(20)
		}
		var ls []string
		for j := 0; j < depth; j++ {
			l := vlib.Pick(r, []string{"a", "www", "Example", "x-1", "zt", strings.Repeat("l", 63), "arpa", "10"})
			ls = append(ls, mixCase(r, l))
		}
		name := strings.Join(ls, ".") + "."
		if depth == 0 {
			name = "."
		}
		if len(name) > 250 {
			continue
		}
		emit("sx walk name=" + name)
	}
	// the cache-contained alias chase: chains of 1-11 cached hops with every way a hop can be unusable
	emit("ch new")
	for c := 0; c < n/60+20; c++ {
		depth := 1 + r.Intn(4)
		if r.Chance(1, 6) {
			depth = 8 + r.Intn(4)
		}
		var hops []string
		for i := 0; i < depth; i++ {
			ad := r.Intn(4) / 3 ^ 1 // mostly authenticated
			ttl := vlib.Pick(r, []int{60, 200, 300, 300, 5})
			tgt := i + 1
			switch {
			case r.Chance(1, 14):
				tgt = r.Intn(i + 1) // back at the question or at an earlier hop
			case r.Chance(1, 20):
				tgt = i // self
			}
			hops = append(hops, fmt.Sprintf("c:%d:%d:%d", ad, ttl, tgt))
		}
		last := vlib.Pick(r, []string{"a", "a", "a", "a", "n", "e", "s", "x"})
		if last == "x" {
			hops = append(hops, "x")
		} else {
			hops = append(hops, fmt.Sprintf("%s:%d:%d:0", last, r.Intn(4)/3^1, vlib.Pick(r, []int{60, 300, 5})))
		}
		emit(fmt.Sprintf("ch run qt=%d cd=%d el=%d hops=%s", vlib.Pick(r, []int{1, 1, 1, 15, 12, 12, 2, 33, 28, 16, 43}), b2i(r.Chance(1, 4)),
			vlib.Pick(r, []int{400, 400, 7500, 5300, 100300, 250700}), strings.Join(hops, ",")))
	}
	zonePool := []string{"10.in-addr.arpa.", "168.192.in-addr.arpa.", "5.10.IN-ADDR.arpa.", "16.172.in-addr.arpa.", "d.f.ip6.arpa.", "8.e.f.ip6.ARPA.", "254.169.in-addr.arpa."}
	for c := 0; c < n/600+2; c++ {
		var zs []string
		for _, z := range zonePool {
			if r.Chance(1, 2) {
				zs = append(zs, z)
			}
		}
		if len(zs) == 0 {
			zs = zonePool[:2]
		}
		emit("as new zones=" + strings.Join(zs, ","))
		for i, m := 0, 6+r.Intn(10); i < m; i++ {
			base := strings.ToLower(vlib.Pick(r, zonePool))
			name := base
			switch r.Intn(8) {
			case 0:
				name = "7." + base
			case 1:
				name = "3.7." + base
			case 2: // sibling / parent
				name = base[strings.Index(base, ".")+1:]
			case 3:
				name = vlib.Pick(r, []string{"arpa.", "in-addr.arpa.", "ip6.arpa.", "fooarpa.", "10.in-addr.fooarpa.", "www.example.test.", "1.2.3.4.in-addr.arpa.", "10.in-addr.arpa.example."})
			case 4:
				name = "x" + base
			}
			emit(fmt.Sprintf("as run name=%s qt=%d", mixCase(r, name), vlib.Pick(r, []int{12, 2, 6, 43, 43, 1, 255})))
		}
	}
	// ladder correspondence through the live server
	for _, r8198 := range []int{1, 0} {
		emit(fmt.Sprintf("lad new r8198=%d", r8198))
		for ex := 0; ex < 2; ex++ {
			for cut := 0; cut < 2; cut++ {
				for _, fail := range []string{"-", "q", "z"} {
					for cd := 0; cd < 2; cd++ {
						for _, cl := range []string{"do=0 small=0", "do=1 small=0", "do=1 small=1", "do=0 small=1"} {
							emit(fmt.Sprintf("lad run ex=%d cut=%d fail=%s cd=%d %s nm=%s", ex, cut, fail, cd, cl, uniq(r, &k)))
							budget--
						}
						// the packet waited in the queue past / within the 3 s query budget
						emit(fmt.Sprintf("lad run ex=%d cut=%d fail=%s cd=%d do=0 small=0 age=%d nm=%s", ex, cut, fail, cd, vlib.Pick(r, []int{1000, 2900, 3100, 10000}), uniq(r, &k)))
						budget--
						// an NSEC3 proof covers the name (aggressive denial precedes failure state on the decoded
						// ladder; a failure over an NSEC3 zone has no miss witness)
						if r8198 == 1 && cut == 0 && ex == 0 {
							emit(fmt.Sprintf("lad run ex=0 cut=0 fail=%s cd=%d do=%d small=0 den=1 nm=%s", fail, cd, r.Intn(2), uniq(r, &k)))
							budget--
						}
						// DNSSEC-typed questions below a cut: which proof template a DO=0 client gets
						if cut == 1 && ex == 0 && cd == 0 {
							for _, qt := range []int{46, 47, 50, 48} {
								emit(fmt.Sprintf("lad run ex=0 cut=1 fail=%s cd=0 do=%d small=0 qt=%d nm=%s", fail, r.Intn(2), qt, uniq(r, &k)))
								budget--
							}
						}
						// the gates in front of the ladders (no entry can exist for an unknown type / class;
						// a cut is recorded for class IN)
						for _, pre := range []string{"nord", "ecs", "utype", "uclass"} {
							if (pre == "utype" || pre == "uclass") && ex == 1 || pre == "uclass" && cut == 1 {
								continue
							}
							emit(fmt.Sprintf("lad run ex=%d cut=%d fail=%s cd=%d do=%d small=0 pre=%s nm=%s", ex, cut, fail, cd, r.Intn(2), pre, uniq(r, &k)))
							budget--
						}
					}
				}
			}
		}
	}
	// state that is REMOVED before it expires: operator purge, capacity eviction of the oldest cut
	emit("lad new r8198=1")
	for _, rm := range []string{"purge", "flood", "purge", "flood"} {
		for _, st := range []string{"ex=0 cut=1 fail=-", "ex=1 cut=1 fail=-", "ex=0 cut=1 fail=q", "ex=1 cut=0 fail=q", "ex=0 cut=0 fail=z"} {
			if rm == "flood" && !strings.Contains(st, "cut=1") {
				continue
			}
			emit(fmt.Sprintf("lad run %s cd=0 do=%d small=0 rm=%s nm=%s", st, r.Intn(2), rm, uniq(r, &k)))
			budget--
		}
	}
	// what the handler behind edns sees after Materialize (decoded, normalized request + ECS marker)
	emit("mz new")
	for i := 0; i < 80+n/200; i++ {
		labels := []string{mixCase(r, vlib.Pick(r, []string{"www", "a", "mail"})), vlib.Pick(r, []string{"example", "EXAMPLE"}), "test"}
		p := genPacket(r, labels, vlib.Pick(r, []uint16{1, 28, 16, 255}), vlib.Pick(r, []uint16{1, 1, 3}), r.Chance(1, 4))
		emit(fmt.Sprintf("mz run proto=%s pkt=%s", vlib.Pick(r, []string{"udp", "tcp"}), vlib.Hex(p.b)))
	}
	// hostsfile: every kind of entry x qtype x letter case, reverse names in both spellings
	emit("hs new")
	for i := 0; i < 60+n/300; i++ {
		name := vlib.Pick(r, []string{"host1.zt.", "host2.zt.", "canon.zt.", "alias.zt.", "foo.wild.zt.", "wild.zt.", "a.b.wild.zt.", "foo.wild6.zt.",
			"xwild.zt.", "nohost.zt.", "zt.", "host1.zt.example.", "sub.host1.zt.", "."})
		qt := vlib.Pick(r, []int{1, 1, 28, 28, 5, 16, 255, 15, 12})
		if r.Chance(1, 4) {
			name = vlib.Pick(r, []string{"10.2.0.192.in-addr.arpa.", "11.2.0.192.in-addr.arpa.", "12.2.0.192.in-addr.arpa.", "14.2.0.192.in-addr.arpa.", "99.2.0.192.in-addr.arpa.",
				"2.0.192.in-addr.arpa."})
			qt = vlib.Pick(r, []int{12, 12, 12, 1})
		}
		if r.Chance(1, 2) {
			name = mixCase(r, name)
		}
		emit(fmt.Sprintf("hs run name=%s qt=%d", name, qt))
	}
	// what reflex scores a request with
	emit("rx new")
	for i := 0; i < 30+n/400; i++ {
		labels := []string{mixCase(r, "www"), "example", "test"}
		p := genPacket(r, labels, vlib.Pick(r, []uint16{16, 48, 46, 255, 1}), 1, r.Chance(1, 5))
		emit("rx facts pkt=" + vlib.Hex(p.b))
	}
	// the engines' header-level verdicts over real sockets (UDP reader's inline pass included)
	emit("sock new")
	for i := 0; i < 24; i++ {
		fl := 0x0100 | r.Intn(16)<<11 // every opcode
		switch r.Intn(6) {
		case 0:
			fl |= 0x8000 // a response: ignored
		case 1:
			fl = 0x0100
		}
		qd, an, ns, ar := 1, 0, 0, 0
		switch r.Intn(8) {
		case 0:
			qd = vlib.Pick(r, []int{0, 2})
		case 1:
			an = vlib.Pick(r, []int{1, 2})
		case 2:
			ns = 2
		case 3:
			ar = vlib.Pick(r, []int{2, 3})
		}
		b := []byte{byte(r.Intn(256)), byte(r.Intn(256)), byte(fl >> 8), byte(fl), 0, byte(qd), 0, byte(an), 0, byte(ns), 0, byte(ar)}
		b = append(b, wireName([]string{"pos", fmt.Sprintf("sock%d", i), "zt"})...)
		b = append(b, 0, 1, 0, 1)
		emit("sock probe pkt=" + vlib.Hex(b))
	}
	// denial zones at the root and at a TLD (a root proof stays for the life of an instance: each gets its own)
	for _, zd := range []int{0, 1, 0, 1} {
		for _, fail := range []string{"q", "-"} {
			emit("lad new r8198=1")
			emit(fmt.Sprintf("lad run ex=0 cut=0 fail=%s cd=%d do=%d small=0 den=1 zd=%d nm=%s", fail, 0, r.Intn(2), zd, uniq(r, &k)))
			budget--
		}
	}
	// header word of every wire builder x request flag bits x poisoned slab
	emit("lad new r8198=1")
	for i := 0; i < 60+n/300; i++ {
		kind := vlib.Pick(r, []string{"exact", "exactad", "cut", "fail", "fail"})
		fl := 0x0100 | r.Intn(0x800)&^0x000f | r.Intn(16) // RD set, opcode 0, QR 0, every other bit free (incl. rcode bits of a query)
		if r.Chance(1, 2) {
			fl = 0x0100 | vlib.Pick(r, []int{0, 0x10, 0x20, 0x30, 0x40, 0x200, 0x400, 0x80})
		}
		if kind == "cut" {
			fl &^= 0x10 // a CD query bypasses the cut rung
		}
		emit(fmt.Sprintf("lad hdr kind=%s fl=%d do=%d p=%d nm=%s", kind, fl, r.Intn(2), vlib.Pick(r, []int{255, 255, 0, 0x20, 0xa5, r.Intn(256)}), uniq(r, &k)))
		budget--
	}
	// end-to-end differential
	for budget > 0 {
		cfgLine := genConfig(r)
		emit(cfgLine)
		m := 25 + r.Intn(40)
		if strings.Contains(cfgLine, "crl=0") == false {
			m = 15 + r.Intn(15)
		}
		if erl := erlOf(cfgLine); erl > 0 {
			// a byte serve that passes the walk and declines late (composed reply larger than the
			// client's buffer) must not have paid the entry limiter: serve erl+1 times per path
			for i := 0; i < 3; i++ {
				scn := vlib.Pick(r, []string{"cnb", "cnb", "mid", "big"})
				u := uniq(r, &k)
				for try := 0; try < 200; try++ { // the three names must not share an entry-limiter bucket
					b0, b1, b2 := bucketOf(scn+"."+u+"-a.zt.", 16, 1, false), bucketOf(scn+"."+u+"-b.zt.", 16, 1, false), bucketOf(scn+"."+u+"-c.zt.", 16, 1, false)
					if b0 != b1 && b0 != b2 && b1 != b2 {
						break
					}
					u = uniq(r, &k)
				}
				line := fmt.Sprintf("e2e q name=%s.%s-@.zt. qt=16 id=%d %s ck=- proto=udp warm=%s shift=%d rep=%d ord=%d", mixCase(r, scn),
					u, r.Intn(65536), vlib.Pick(r, []string{"edns=0", "usz=512", "usz=600 do=1", "usz=0"}), vlib.Pick(r, []string{"raw", "msg"}),
					vlib.Pick(r, []int{0, 7, 100}), erl+1, r.Intn(4))
				emit(line)
				budget -= 6
			}
		}
		for i := 0; i < m && budget > 0; i++ {
			// (histories below are not steered to fresh entry-limiter buckets: erl = 0 only)
			if strings.Contains(cfgLine, "ratelimit") && erlOf(cfgLine) == 0 && r.Chance(1, 3) {
				emit(genSeq(r, &k))
			} else if strings.Contains(cfgLine, "rfc8198=1") && erlOf(cfgLine) == 0 && r.Chance(1, 12) {
				// aggressive denial: a cached NSEC3 proof covers the name; with starve=1 the first
				// resolution ran while the crypto budget was exhausted and failed (RFC 9520 state
				// recorded over an NSEC3 zone), the budget is back for the compared serves
				scn := vlib.Pick(r, []string{"sf", "sf", "sfe", "pos", "nx"})
				emit(fmt.Sprintf("e2e q nsec3=1 starve=%d name=%s.%s-@.zt. qt=%d id=%d usz=1232 do=%d cd=%d ck=- proto=%s warm=%s rep=%d ord=%d", r.Intn(2), mixCase(r, scn), uniq(r, &k),
					vlib.Pick(r, []int{1, 1, 28, 16}), r.Intn(65536), r.Intn(2), b2i(r.Chance(1, 5)), vlib.Pick(r, []string{"udp", "tcp"}), vlib.Pick(r, []string{"raw", "msg"}), 1+r.Intn(2), r.Intn(4)))
			} else if erlOf(cfgLine) == 0 && r.Chance(1, 10) {
				emit(genMix(r, &k))
			} else if r.Chance(1, 4) && erlOf(cfgLine) == 0 {
				// (raw shapes cannot be steered away from used entry-limiter buckets)
				emit(genRaw(r, &k))
			} else {
				emit(genQ(r, &k, cfgLine))
			}
			budget -= 6 // an e2e op is several serves
		}
	}
	emit("e2e stop")
}

// genSeq: a cookie-rotation history of one client (transport x client cookie x
// with/without the server half), 3-7 steps.
func genSeq(r *vlib.R, k *int) string {
	nsteps := 3 + r.Intn(5)
	var steps []string
	for i := 0; i < nsteps; i++ {
		c := vlib.Pick(r, []string{"A", "A", "B", "B", "C"})
		if i > 0 && r.Chance(1, 3) {
			c = steps[i-1][1:2] // stay with the previous cookie
		}
		steps = append(steps, vlib.Pick(r, []string{"u", "u", "t"})+c+vlib.Pick(r, []string{"0", "0", "1", "1", "s"}))
	}
	return fmt.Sprintf("e2e seq name=pos.%s-@.zt. qt=1 id=%d do=%d v6=%d ord=%d steps=%s", uniq(r, k), r.Intn(65536), r.Intn(2), b2i(r.Chance(1, 5)), r.Intn(3), strings.Join(steps, ","))
}

// genMix: mixed-validation alias chain — alias AD x target AD at admission x
// AD of the target re-admitted after its shorter TTL ran out.
func genMix(r *vlib.R, k *int) string {
	mix := fmt.Sprintf("%d%d%d", r.Intn(2), r.Intn(2), r.Intn(2))
	if r.Chance(1, 2) {
		mix = vlib.Pick(r, []string{"110", "111", "101", "100"})
	}
	flag := vlib.Pick(r, []string{"do=1", "ad=1", "do=1 ad=1", "do=0", "do=1 cd=1"})
	return fmt.Sprintf("e2e q mix=%s name=%s.%s-@.zt. qt=1 id=%d usz=1232 %s ck=- proto=%s warm=%s rep=%d ord=%d", mix, mixCase(r, "cnv"), uniq(r, k),
		r.Intn(65536), flag, vlib.Pick(r, []string{"udp", "tcp"}), vlib.Pick(r, []string{"raw", "msg"}), 1+r.Intn(2), r.Intn(4))
}
