//go:build verif

// Correspondence driver for C05 (wire fast path ≡ decoded path).
package main

import (
	"strings"

	"github.com/semihalev/sdns/internal/verif/vlib"
)

func exec(op string) vlib.Res {
	f := strings.Fields(op)
	if len(f) < 2 {
		return vlib.Res{Impl: "bad-op"}
	}
	switch f[0] {
	case "e2e":
		return execE2E(f)
	}
	return vlib.Res{Impl: "bad-op"}
}

func gen(r *vlib.R, n int, tier string, emit func(string)) {}

func facts() map[string]any { return map[string]any{} }

func main() {
	defer stopLive()
	vlib.Main(&vlib.Driver{Facts: facts, Exec: exec, Gen: gen})
}
