//go:build verif

// Correspondence driver for C05 (wire fast path ≡ decoded path).
//
// Function-level ops (compared line by line with the Lean model, each with
// an independent oracle built on the DNS library / the RFC text):
//
//	pw  parse <hex>                       real middleware.Request.ParseWire
//	ar  apply|clearad|set ...             real wire.ApplyReply / ClearAD / SetRcode / SetRA / SetAD
//	opt build k=v...                      real edns wireOPTLen + appendWireOPT
//	hit serve k=v...                      real CacheEntry.serveWireIntoRequest vs CacheEntry.ToMsg
//	lad run k=v...                        real Cache ladder through the live server (inline pass vs ServeMsg)
//
// End-to-end differential ops (oracle only, see e2e.go): e2e new|q|raw|stop.
package main

import (
	"crypto/sha256"
	"encoding/binary"
	"encoding/hex"
	"fmt"
	"net"
	"sort"
	"strings"
	"time"

	"github.com/miekg/dns"
	"github.com/semihalev/sdns/config"
	"github.com/semihalev/sdns/internal/dnsutil"
	"github.com/semihalev/sdns/internal/mock"
	"github.com/semihalev/sdns/internal/verif/vlib"
	"github.com/semihalev/sdns/internal/wire"
	"github.com/semihalev/sdns/middleware"
	"github.com/semihalev/sdns/middleware/as112"
	"github.com/semihalev/sdns/middleware/cache"
	"github.com/semihalev/sdns/middleware/edns"
	"github.com/semihalev/sdns/server"
)

func exec(op string) vlib.Res {
	f := strings.Fields(op)
	if len(f) < 2 {
		return vlib.Res{Impl: "bad-op"}
	}
	if f[1] == "new" && f[0] != "e2e" && f[0] != "lad" && f[0] != "rl" && f[0] != "as" && f[0] != "sock" && f[0] != "hs" {
		return vlib.Res{Impl: "ok", Oracle: "-"}
	}
	switch f[0] {
	case "e2e":
		return execE2E(f)
	case "pw":
		if f[1] == "parse" && len(f) == 3 {
			return execPW(vlib.UnHex(f[2]))
		}
	case "ar":
		return execAR(f)
	case "opt":
		if f[1] == "build" {
			return execOPT(kv(f[2:]))
		}
	case "hit":
		if f[1] == "serve" {
			return execHit(kv(f[2:]))
		}
	case "lad":
		return execLad(f)
	case "ed":
		if f[1] == "serve" {
			return execED(kv(f[2:]))
		}
	case "mz":
		if f[1] == "run" {
			return execMZ(kv(f[2:]))
		}
	case "hs":
		return execHS(f)
	case "rx":
		if f[1] == "facts" {
			return execRX(kv(f[2:]))
		}
	case "sock":
		return execSock(f)
	case "sx":
		if f[1] == "walk" {
			return execSX(kv(f[2:]))
		}
	case "ch":
		if f[1] == "run" {
			return execCH(kv(f[2:]))
		}
	case "rl":
		return execRL(f)
	case "as":
		return execAS(f)
	}
	return vlib.Res{Impl: "bad-op"}
}

// ---------------------------------------------------------------- pw

func hdrWord(h dns.MsgHdr) uint16 {
	var w uint16
	set := func(b bool, bit uint) {
		if b {
			w |= 1 << bit
		}
	}
	set(h.Response, 15)
	w |= uint16(h.Opcode&0xF) << 11
	set(h.Authoritative, 10)
	set(h.Truncated, 9)
	set(h.RecursionDesired, 8)
	set(h.RecursionAvailable, 7)
	set(h.Zero, 6)
	set(h.AuthenticatedData, 5)
	set(h.CheckingDisabled, 4)
	w |= uint16(h.Rcode & 0xF)
	return w
}

func execPW(raw []byte) vlib.Res {
	ok, f := middleware.VerifC05ParseWire(raw)
	// the library is the specification decoder of the oracle
	m := new(dns.Msg)
	err := m.Unpack(raw)
	if !ok {
		tags := "rej"
		if err == nil && len(m.Question) == 1 {
			tags = "rej,nt" // conservative refusal of a decodable query
		}
		return vlib.Res{Impl: "rej", Oracle: "ok", Tags: tags}
	}
	ck := "-"
	if f.CookieLen > 0 && f.CookieOff+f.CookieLen <= len(raw) {
		ck = hex.EncodeToString(raw[f.CookieOff : f.CookieOff+f.CookieLen])
	}
	impl := fmt.Sprintf("ok id=%d fl=%d qt=%d qc=%d nl=%d qe=%d opt=%s udp=%d do=%s ver=%d ecs=%s nsid=%s ka=%s ck=%s",
		f.ID, f.Flags, f.Qtype, f.Qclass, f.NameLen, f.QuestionEnd, vlib.B(f.HasOPT), f.UDPSize, vlib.B(f.DO), f.Version,
		vlib.B(f.HasECS), vlib.B(f.HasNSID), vlib.B(f.HasKeepalive), ck)
	bad := func(sig, d string) vlib.Res {
		return vlib.Res{Impl: impl, Oracle: "FAIL sig=c05/parsewire/" + sig + " " + d, Tags: "nt"}
	}
	if err != nil {
		return bad("accepted-undecodable", err.Error())
	}
	if m.Id != f.ID || hdrWord(m.MsgHdr) != f.Flags {
		return bad("header-facts", fmt.Sprintf("lib id=%d flags=%d", m.Id, hdrWord(m.MsgHdr)))
	}
	if m.Opcode != dns.OpcodeQuery || m.Response {
		return bad("accepted-non-query", fmt.Sprintf("opcode=%d qr=%v", m.Opcode, m.Response))
	}
	if len(m.Question) != 1 || len(m.Answer) != 0 || len(m.Ns) != 0 {
		return bad("accepted-extra-sections", fmt.Sprintf("qd=%d an=%d ns=%d", len(m.Question), len(m.Answer), len(m.Ns)))
	}
	q := m.Question[0]
	if q.Qtype != f.Qtype || q.Qclass != f.Qclass {
		return bad("question-facts", fmt.Sprintf("lib qtype=%d qclass=%d", q.Qtype, q.Qclass))
	}
	nb := make([]byte, 300)
	if end, perr := dns.PackDomainName(q.Name, nb, 0, nil, false); perr != nil || f.NameOff != 12 ||
		f.NameOff+f.NameLen > len(raw) || string(nb[:end]) != string(raw[f.NameOff:f.NameOff+f.NameLen]) || f.QuestionEnd != f.NameOff+f.NameLen+4 {
		return bad("name-facts", fmt.Sprintf("lib name=%q", q.Name))
	}
	nOPT, other := 0, 0
	for _, r := range m.Extra {
		if r.Header().Rrtype == dns.TypeOPT {
			nOPT++
		} else {
			other++
		}
	}
	wantOPT := 0
	if f.HasOPT {
		wantOPT = 1
	}
	if other != 0 || nOPT != wantOPT {
		return bad("accepted-trailing-records", fmt.Sprintf("opt=%d other=%d", nOPT, other))
	}
	total := f.QuestionEnd
	if f.HasOPT {
		opt := m.IsEdns0()
		if opt.UDPSize() != f.UDPSize || opt.Do() != f.DO || opt.Version() != f.Version || opt.ExtendedRcode() != 0 || opt.Hdr.Name != "." {
			return bad("opt-facts", fmt.Sprintf("lib udp=%d do=%v ver=%d xr=%d", opt.UDPSize(), opt.Do(), opt.Version(), opt.ExtendedRcode()))
		}
		var ecs, nsid, ka bool
		cookies := []string{}
		for _, o := range opt.Option {
			switch v := o.(type) {
			case *dns.EDNS0_SUBNET:
				ecs = true
			case *dns.EDNS0_NSID:
				nsid = true
			case *dns.EDNS0_TCP_KEEPALIVE:
				ka = true
			case *dns.EDNS0_COOKIE:
				cookies = append(cookies, v.Cookie)
			case *dns.EDNS0_PADDING:
			default:
				return bad("accepted-unknown-option", fmt.Sprintf("code=%d", o.Option()))
			}
		}
		if ecs != f.HasECS || nsid != f.HasNSID || ka != f.HasKeepalive {
			return bad("option-facts", fmt.Sprintf("lib ecs=%v nsid=%v ka=%v", ecs, nsid, ka))
		}
		if len(cookies) > 1 || (len(cookies) == 1) != (ck != "-") || (len(cookies) == 1 && cookies[0] != ck) {
			return bad("cookie-facts", fmt.Sprintf("lib cookies=%v", cookies))
		}
		if len(cookies) == 1 && (len(ck) < 16 || len(ck) > 80) {
			return bad("cookie-length", ck)
		}
		total += 11 + int(binary.BigEndian.Uint16(raw[f.QuestionEnd+9:]))
	}
	if total != len(raw) {
		return bad("accepted-trailing-bytes", fmt.Sprintf("consumed=%d len=%d", total, len(raw)))
	}
	return vlib.Res{Impl: impl, Oracle: "ok", Tags: "nt"}
}

// ---------------------------------------------------------------- ar

func execAR(f []string) vlib.Res {
	body := make([]byte, 12)
	flagsOf := func(s string) uint16 { return uint16(vlib.Atoi(s)) }
	unpackHdr := func(w uint16) dns.MsgHdr {
		b := make([]byte, 12)
		binary.BigEndian.PutUint16(b[2:], w)
		m := new(dns.Msg)
		if err := m.Unpack(b); err != nil {
			panic(err)
		}
		return m.MsgHdr
	}
	switch f[1] {
	case "apply":
		if len(f) != 7 {
			break
		}
		fl, id, op := flagsOf(f[2]), vlib.Atoi(f[3]), vlib.Atoi(f[4])
		rd, cd := f[5] == "t", f[6] == "t"
		binary.BigEndian.PutUint16(body[2:], fl)
		wire.ApplyReply(body, uint16(id), op, rd, cd)
		gid, gfl := binary.BigEndian.Uint16(body[0:]), binary.BigEndian.Uint16(body[2:])
		// oracle: the decoded path's shaping through the library
		h := unpackHdr(fl)
		resp := &dns.Msg{MsgHdr: h}
		req := &dns.Msg{MsgHdr: dns.MsgHdr{Id: uint16(id), Opcode: op & 0xF, RecursionDesired: rd, CheckingDisabled: cd}}
		rc := resp.Rcode
		resp.SetReply(req)
		if op&0xF != 0 {
			// SetReply copies RD/CD for plain queries only; ApplyReply documents an unconditional copy
			resp.RecursionDesired, resp.CheckingDisabled = rd, cd
		}
		resp.Rcode = rc
		resp.Authoritative = false
		or := "ok"
		if want := hdrWord(resp.MsgHdr); want != gfl || gid != uint16(id) {
			or = fmt.Sprintf("FAIL sig=c05/applyreply/differs-from-setreply want=%04x got=%04x id=%d", want, gfl, gid)
		}
		return vlib.Res{Impl: fmt.Sprintf("id=%d fl=%d", gid, gfl), Oracle: or, Tags: "nt"}
	case "clearad":
		fl := flagsOf(f[2])
		binary.BigEndian.PutUint16(body[2:], fl)
		wire.ClearAD(body)
		g := binary.BigEndian.Uint16(body[2:])
		h := unpackHdr(fl)
		h.AuthenticatedData = false
		or := "ok"
		if hdrWord(h) != g {
			or = fmt.Sprintf("FAIL sig=c05/clearad want=%04x got=%04x", hdrWord(h), g)
		}
		return vlib.Res{Impl: fmt.Sprintf("fl=%d", g), Oracle: or}
	case "set":
		if len(f) != 5 {
			break
		}
		fl, v := flagsOf(f[3]), vlib.Atoi(f[4])
		binary.BigEndian.PutUint16(body[2:], fl)
		h := unpackHdr(fl)
		switch f[2] {
		case "rcode":
			wire.SetRcode(body, v)
			h.Rcode = v & 0xF
		case "ra":
			wire.SetRA(body)
			h.RecursionAvailable = true
		case "ad":
			wire.SetAD(body)
			h.AuthenticatedData = true
		default:
			return vlib.Res{Impl: "bad-op"}
		}
		g := binary.BigEndian.Uint16(body[2:])
		or := "ok"
		if hdrWord(h) != g {
			or = fmt.Sprintf("FAIL sig=c05/setflag/%s want=%04x got=%04x", f[2], hdrWord(h), g)
		}
		return vlib.Res{Impl: fmt.Sprintf("fl=%d", g), Oracle: or}
	}
	return vlib.Res{Impl: "bad-op"}
}

// ---------------------------------------------------------------- opt

func hexOrNil(s string) []byte {
	if s == "" || s == "-" {
		return nil
	}
	return vlib.UnHex(s)
}

func execOPT(a map[string]string) vlib.Res {
	ip := net.IP(hexOrNil(a["ip"]))
	secret := string(hexOrNil(a["secret"]))
	nsid := string(hexOrNil(a["nsid"]))
	ck := hexOrNil(a["ck"])
	e := edns.New(&config.Config{CookieSecret: secret, NSID: nsid})
	inner := mock.NewWriter("udp", net.JoinHostPort(ip.String(), "4242"))
	spec := edns.VerifC05OPTSpec{NoEDNS: a["ne"] == "t", DO: a["do"] == "t", RespUDPSize: uint16(vlib.Atoi(a["udp"])),
		CookieRaw: ck, NSIDAsked: a["nq"] == "t", Keepalive: a["ka"] == "t"}
	info := middleware.WireInfo{}
	if a["ec"] != "-" && a["ec"] != "" {
		info.HasEDE = true
		info.EDECode = uint16(vlib.Atoi(a["ec"]))
		info.EDEText = string(hexOrNil(a["et"]))
	}
	n, lenOK, opt, ok := edns.VerifC05WireOPT(e, inner, spec, info)
	ls, os := "x", "x"
	if lenOK {
		ls = fmt.Sprint(n)
	}
	if spec.NoEDNS {
		os = "-"
	} else if ok {
		os = vlib.Hex(opt)
	}
	impl := fmt.Sprintf("len=%s opt=%s", ls, os)

	// ---- oracle 1: the op line's own consistency (digest/addr length are model inputs)
	addr := ip
	if v4 := ip.To4(); v4 != nil {
		addr = v4
	}
	text := addr.String()
	h := sha256.New()
	h.Write([]byte(text))
	h.Write([]byte(hex.EncodeToString(ck)))
	h.Write([]byte(secret))
	digest := h.Sum(nil)
	if ck != nil && hex.EncodeToString(digest) != a["dg"] {
		return vlib.Res{Impl: impl, Oracle: "FAIL sig=c05/opt/op-line-digest-mismatch (generator bug)"}
	}
	// ---- oracle 2: the DNS library packs the OPT the Msg path would build
	or := "ok"
	if !spec.NoEDNS && ok {
		o := new(dns.OPT)
		o.Hdr.Name, o.Hdr.Rrtype = ".", dns.TypeOPT
		o.SetUDPSize(spec.RespUDPSize)
		if spec.DO {
			o.SetDo()
		}
		if ck != nil {
			o.Option = append(o.Option, &dns.EDNS0_COOKIE{Code: dns.EDNS0COOKIE, Cookie: dnsutil.GenerateServerCookie(secret, text, hex.EncodeToString(ck))})
		}
		if nsid != "" && spec.NSIDAsked {
			o.Option = append(o.Option, &dns.EDNS0_NSID{Code: dns.EDNS0NSID, Nsid: hex.EncodeToString([]byte(nsid))})
		}
		if spec.Keepalive {
			o.Option = append(o.Option, &dns.EDNS0_TCP_KEEPALIVE{Code: dns.EDNS0TCPKEEPALIVE, Timeout: 80})
		}
		if info.HasEDE {
			o.Option = append(o.Option, &dns.EDNS0_EDE{InfoCode: info.EDECode, ExtraText: info.EDEText})
		}
		pm := &dns.Msg{Extra: []dns.RR{o}}
		pb, err := pm.Pack()
		if err != nil {
			or = "FAIL sig=c05/opt/library-cannot-pack " + err.Error()
		} else if string(pb[12:]) != string(opt) {
			or = fmt.Sprintf("FAIL sig=c05/opt/bytes-differ-from-packed-opt want=%x got=%x", pb[12:], opt)
		}
		if or == "ok" && lenOK {
			reserve := 0
			if info.HasEDE {
				reserve = 4 + 2 + len(info.EDEText)
			}
			if n+reserve != len(opt) {
				or = fmt.Sprintf("FAIL sig=c05/opt/reserve-differs-from-length reserve=%d len=%d", n+reserve, len(opt))
			}
		}
	}
	if !spec.NoEDNS && lenOK && !ok {
		or = "FAIL sig=c05/opt/late-decline-after-preflight"
	}
	return vlib.Res{Impl: impl, Oracle: or, Tags: "nt"}
}

// ---------------------------------------------------------------- hit

func execHit(a map[string]string) vlib.Res {
	ttl, el, n := vlib.Atoi(a["ttl"]), vlib.Atoi(a["el"]), vlib.Atoi(a["n"])
	ad, cd := a["ad"] == "t", a["cd"] == "t"
	name := "Hit.Example.test."
	resp := new(dns.Msg)
	resp.Response = true
	resp.RecursionAvailable = true
	resp.AuthenticatedData = ad
	resp.CheckingDisabled = cd
	resp.Question = []dns.Question{{Name: strings.ToLower(name), Qtype: dns.TypeA, Qclass: dns.ClassINET}}
	for i := 0; i < n; i++ {
		r := &dns.A{Hdr: dns.RR_Header{Name: strings.ToLower(name), Rrtype: dns.TypeA, Class: dns.ClassINET, Ttl: uint32(700 + i)}, A: net.IPv4(192, 0, 2, byte(i+1))}
		switch i % 3 {
		case 0:
			resp.Answer = append(resp.Answer, r)
		case 1:
			resp.Ns = append(resp.Ns, &dns.NS{Hdr: dns.RR_Header{Name: "example.test.", Rrtype: dns.TypeNS, Class: dns.ClassINET, Ttl: uint32(900 + i)}, Ns: fmt.Sprintf("ns%d.example.test.", i)})
		default:
			r.Hdr.Name = fmt.Sprintf("ns%d.example.test.", i)
			resp.Extra = append(resp.Extra, r)
		}
	}
	q := new(dns.Msg)
	q.SetQuestion(name, dns.TypeA)
	q.Id = 4242
	q.CheckingDisabled = cd
	pkt, _ := q.Pack()
	wreq := middleware.VerifC05WireRequest(pkt)
	if wreq == nil {
		return vlib.Res{Impl: "no-wire-request"}
	}
	body, info, ok, msg := cache.VerifC05EntryServe(resp, time.Duration(ttl)*time.Second, time.Duration(el)*time.Millisecond, wreq, false)
	describe := func(m *dns.Msg) string {
		var ttls []uint32
		for _, s := range [][]dns.RR{m.Answer, m.Ns, m.Extra} {
			for _, r := range s {
				ttls = append(ttls, r.Header().Ttl)
			}
		}
		t := "none"
		if len(ttls) > 0 {
			t = fmt.Sprint(ttls[0])
			for _, x := range ttls {
				if x != ttls[0] {
					t = "mixed"
				}
			}
		}
		return fmt.Sprintf("%s/%s/%d", t, vlib.B(m.AuthenticatedData), len(ttls))
	}
	ws, ms := "x", "x"
	or := "ok"
	var wm *dns.Msg
	if ok {
		wm = new(dns.Msg)
		if err := wm.Unpack(body); err != nil {
			return vlib.Res{Impl: "w=garbled", Oracle: "FAIL sig=c05/hit/wire-body-undecodable " + err.Error()}
		}
		ws = describe(wm)
		if info.AuthenticatedData != wm.AuthenticatedData {
			or = "FAIL sig=c05/hit/wireinfo-ad-differs-from-body"
		}
	}
	if msg != nil {
		ms = describe(msg)
	}
	// oracle: floor of the remaining lifetime, AD never with CD
	remMs := ttl*1000 - el
	if remMs <= 0 {
		if ok || msg != nil {
			or = "FAIL sig=c05/hit/served-expired"
		}
	} else {
		want := fmt.Sprintf("%d/%s/%d", remMs/1000, vlib.B(ad && !cd), n)
		if n == 0 {
			want = fmt.Sprintf("none/%s/0", vlib.B(ad && !cd))
		}
		if ws != want {
			or = fmt.Sprintf("FAIL sig=c05/hit/wire-ttl-or-ad want=%s got=%s", want, ws)
		} else if ms != want {
			or = fmt.Sprintf("FAIL sig=c05/hit/msg-ttl-or-ad want=%s got=%s", want, ms)
		}
		if or == "ok" && wm != nil && msg != nil {
			if wm.Id != 4242 || msg.Id != 4242 || hdrWord(wm.MsgHdr) != hdrWord(msg.MsgHdr) {
				or = fmt.Sprintf("FAIL sig=c05/hit/header-differs wire=%04x msg=%04x", hdrWord(wm.MsgHdr), hdrWord(msg.MsgHdr))
			} else if len(wm.Question) != 1 || wm.Question[0].Name != name {
				or = "FAIL sig=c05/hit/question-spelling-not-echoed " + wm.Question[0].Name
			}
		}
	}
	return vlib.Res{Impl: fmt.Sprintf("w=%s m=%s", ws, ms), Oracle: or, Tags: "nt"}
}

// ---------------------------------------------------------------- lad

func execLad(f []string) vlib.Res {
	switch f[1] {
	case "new":
		a := kv(f[2:])
		startLive(liveCfg{handlers: []string{"recovery", "edns", "cache"}, rfc8198: a["r8198"] == "1", rfc9520: true})
		return vlib.Res{Impl: "ok", Oracle: "-"}
	case "hdr":
		// header word of a reply built by each wire builder (flat hit, cut, cached
		// failure) for an arbitrary request flag word on a slab poisoned with p,
		// next to the decoded path's header for the same question
		if live == nil || live.Cache == nil {
			return vlib.Res{Impl: "no-live"}
		}
		a := kv(f[2:])
		opSeq++
		n := opSeq
		fl := uint16(vlib.Atoi(a["fl"]))
		cd := fl&0x10 != 0
		scn := map[string]string{"exact": "pos", "exactad": "sig", "cut": "pos.gone", "fail": "pos"}[a["kind"]]
		tmpl := scn + "." + a["nm"] + "-@.zt."
		var names [3]string
		for p := 0; p < 3; p++ {
			names[p] = strings.ReplaceAll(tmpl, "@", string(markers[p]))
		}
		plain := qspec{name: tmpl, qtype: dns.TypeA, qclass: dns.ClassINET, id: 5, rd: true, cd: cd, edns: true, usz: 4096, do: true}
		switch a["kind"] {
		case "exact", "exactad":
			for p := 0; p < 3; p++ {
				rawSettled(plain.build(markers[p], nil, nil), remoteFor(p, "tcp", false, 60000+n))
			}
		case "cut":
			seedState(map[string]string{"cut": "1"}, names, dns.TypeA, cd)
		case "fail":
			seedState(map[string]string{"fail": "q"}, names, dns.TypeA, cd)
		}
		build := func(marker byte) []byte {
			q := plain
			q.do = a["do"] == "1"
			b := q.build(marker, nil, nil)
			b[2], b[3] = byte(fl>>8), byte(fl)
			return b
		}
		old := poisonByte
		poisonByte = byte(vlib.Atoi(a["p"]))
		defer func() { poisonByte = old }()
		remote := remoteFor(0, "udp", false, n)
		word := func(r reply) string {
			if len(r.raw) < 4 {
				return r.class
			}
			return fmt.Sprint(int(r.raw[2])<<8 | int(r.raw[3]))
		}
		rc := serve(2, build('c'), remote, "udp")
		rb := serve(1, build('b'), remote, "udp")
		ws := "decline"
		if rc.inline == "inline" {
			ws = word(rc)
		}
		or := "ok"
		if word(rc) != word(rb) {
			or = fmt.Sprintf("FAIL sig=c05/diff/flags header word inline=%s msg=%s", word(rc), word(rb))
		}
		return vlib.Res{Impl: fmt.Sprintf("wire=%s msg=%s", ws, word(rb)), Oracle: or, Tags: "nt"}
	case "run":
		if live == nil || live.Cache == nil {
			return vlib.Res{Impl: "no-live"}
		}
		a := kv(f[2:])
		opSeq++
		n := opSeq
		cd := a["cd"] == "1"
		var names [3]string
		for p := 0; p < 3; p++ {
			names[p] = fmt.Sprintf("pos.gone.%s-%c.zt.", a["nm"], markers[p])
		}
		// small=1: a DO client over UDP whose buffer (512) is smaller than the signed
		// proof of a cut — the cut's byte serve must decline to the decoded body
		s := qspec{name: "pos.gone." + a["nm"] + "-@.zt.", qtype: dns.TypeA, qclass: dns.ClassINET, id: 77, rd: true, cd: cd, edns: true, usz: 4096,
			do: a["do"] == "1"}
		if a["small"] == "1" {
			s.usz = 512
		}
		// the gates in front of both ladders: RD clear, client subnet present, a qtype /
		// qclass outside the library's tables
		switch a["pre"] {
		case "nord":
			s.rd = false
		case "ecs":
			s.ecs = true
		case "utype":
			s.qtype = 65280
		case "uclass":
			s.qclass = 5
		}
		if a["qt"] != "" {
			s.qtype = uint16(vlib.Atoi(a["qt"])) // DNSSEC-typed questions pick the cut's template differently
		}
		if a["ex"] == "1" {
			for p := 0; p < 3; p++ {
				rawSettled(s.build(markers[p], nil, nil), remoteFor(p, "tcp", false, 60000+n))
			}
		}
		if a["zd"] != "" {
			// a denial zone at depth zd (0 = the root) above a two-label name: the byte path's
			// suffix walks must see every ancestor zone, the root included
			tmpl := "pos." + a["nm"] + "-@."
			for p := 0; p < 3; p++ {
				names[p] = strings.ReplaceAll(tmpl, "@", string(markers[p]))
			}
			s.name = tmpl
			if !seedDenialAt(names, vlib.Atoi(a["zd"])) {
				return vlib.Res{Impl: "proof-not-installed", Oracle: "FAIL sig=c05/harness/denial-proof-rejected"}
			}
		} else if a["den"] == "1" {
			// a validated NSEC3 proof covers the name: the decoded ladder synthesizes the denial
			// before it looks at failure state, and a failure recorded over such a zone carries no
			// miss witness (NSEC3 misses can be crypto-budget starvation)
			seedDenial(names)
		}
		seedState(map[string]string{"cut": a["cut"], "fail": strings.ReplaceAll(a["fail"], "-", ""), "qc": fmt.Sprint(s.qclass)}, names, s.qtype, cd)
		switch a["rm"] {
		case "purge":
			// an operator purge of the question: exact entry, covering cuts and failure state go
			for p := 0; p < 3; p++ {
				live.Cache.Purge(dns.Question{Name: names[p], Qtype: s.qtype, Qclass: s.qclass})
			}
		case "flood":
			// capacity eviction: more validated cuts in the signer zone than its bound — the
			// cut recorded above is the oldest and goes
			for p := 0; p < 3; p++ {
				zone := zoneOf(names[p])
				for i := 0; i < 300; i++ {
					d := fmt.Sprintf("f%d.%s", i, zone)
					cache.VerifC05RecordCut(live.Cache, proofFor(d, zone), d, zone)
				}
			}
		}
		rung := func(r reply, calls int64) string {
			if calls == 0 && r.m != nil && r.m.Rcode == dns.RcodeNameError {
				if a["den"] == "1" && a["cut"] != "1" {
					return "denial"
				}
				return fmt.Sprintf("cut:%d", len(r.m.Ns)) // which proof template was served
			}
			switch {
			case calls > 0:
				return "miss"
			case r.m == nil:
				return "drop"
			case r.m.Rcode == dns.RcodeSuccess && len(r.m.Answer) > 0:
				return "exact"
			case r.m.Rcode == dns.RcodeNameError:
				return "cut"
			case r.m.Rcode == dns.RcodeServerFailure:
				if opt := r.m.IsEdns0(); opt != nil {
					for _, o := range opt.Option {
						if e, ok := o.(*dns.EDNS0_EDE); ok && e.InfoCode == dns.ExtendedErrorCodeCachedError {
							return "failure"
						}
					}
				}
				return "norec"
			}
			return "other"
		}
		remote := remoteFor(0, "udp", false, n)
		serveAge = time.Duration(atoiD(a["age"], 0)) * time.Millisecond
		defer func() { serveAge = 0 }()
		c0 := live.Stub.Calls.Load()
		rc := serve(2, s.build('c', nil, nil), remote, "udp")
		cc := live.Stub.Calls.Load() - c0
		c0 = live.Stub.Calls.Load()
		rb := serve(1, s.build('b', nil, nil), remote, "udp")
		cb := live.Stub.Calls.Load() - c0
		wireOut := "decline"
		if rc.inline == "inline" {
			wireOut = rung(rc, cc)
		}
		impl := fmt.Sprintf("wire=%s msg=%s", wireOut, rung(rb, cb))
		// oracle: the property — whichever path served, the client sees the same thing
		or := "ok"
		if d := diff("inline", "msg", rc, rb, sentInfo{pkt: s.build('c', nil, nil), remote: remote}, sentInfo{pkt: s.build('b', nil, nil), remote: remote}); d != "" {
			or = "FAIL sig=" + sigOf(d) + " " + d
		} else if cc != cb {
			or = fmt.Sprintf("FAIL sig=c05/diff/side-effect upstream calls inline=%d msg=%d", cc, cb)
		}
		return vlib.Res{Impl: impl, Oracle: or, Tags: "nt"}
	}
	return vlib.Res{Impl: "bad-op"}
}

// ---------------------------------------------------------------- facts

func facts() map[string]any {
	ar := func(fl uint16, op int, rd, cd bool) int {
		b := make([]byte, 12)
		binary.BigEndian.PutUint16(b[2:], fl)
		wire.ApplyReply(b, 0, op, rd, cd)
		return int(binary.BigEndian.Uint16(b[2:]))
	}
	var bits, bitsSet, clr []int
	for i := 0; i < 16; i++ {
		bits = append(bits, ar(1<<uint(i), 0, false, false))
		bitsSet = append(bitsSet, ar(1<<uint(i), 15, true, true))
		b := make([]byte, 12)
		binary.BigEndian.PutUint16(b[2:], 1<<uint(i))
		wire.ClearAD(b)
		clr = append(clr, int(binary.BigEndian.Uint16(b[2:])))
	}
	var opc []int
	for op := 0; op < 16; op++ {
		opc = append(opc, ar(0, op, false, false))
	}
	// ParseWire boundary tables, evaluated on the real function
	probe := func(optRdata []byte) bool {
		q := []byte{0, 1, 1, 0, 0, 1, 0, 0, 0, 0, 0, 1, 1, 'a', 0, 0, 1, 0, 1, 0, 0, 41, 4, 208, 0, 0, 0, 0}
		q = binary.BigEndian.AppendUint16(q, uint16(len(optRdata)))
		q = append(q, optRdata...)
		ok, _ := middleware.VerifC05ParseWire(q)
		return ok
	}
	option := func(code uint16, n int) []byte {
		b := binary.BigEndian.AppendUint16(nil, code)
		b = binary.BigEndian.AppendUint16(b, uint16(n))
		return append(b, make([]byte, n)...)
	}
	var cookieLens, kaLens, codes []int
	for n := 0; n <= 48; n++ {
		if probe(option(dns.EDNS0COOKIE, n)) {
			cookieLens = append(cookieLens, n)
		}
		if probe(option(dns.EDNS0TCPKEEPALIVE, n)) {
			kaLens = append(kaLens, n)
		}
	}
	for c := 0; c <= 40; c++ {
		if probe(option(uint16(c), 8)) { // 8 zero octets: valid cookie, NSID, padding, family-0 ECS
			codes = append(codes, c)
		}
	}
	twoCookies := probe(append(option(dns.EDNS0COOKIE, 8), option(dns.EDNS0COOKIE, 8)...))
	nameProbe := func(labelLens []int) bool {
		q := []byte{0, 1, 1, 0, 0, 1, 0, 0, 0, 0, 0, 0}
		for _, l := range labelLens {
			q = append(q, byte(l))
			q = append(q, make([]byte, l)...)
		}
		q = append(q, 0, 0, 1, 0, 1)
		ok, _ := middleware.VerifC05ParseWire(q)
		return ok
	}
	maxLabel := 0
	for l := 1; l <= 70; l++ {
		if nameProbe([]int{l}) {
			maxLabel = l
		}
	}
	// names of k octets: 63-octet labels then a filler label
	maxName := 0
	for total := 200; total <= 260; total++ {
		rest := total - 1 - 3*64
		if rest < 2 {
			continue
		}
		if nameProbe([]int{63, 63, 63, rest - 1}) {
			maxName = total
		}
	}
	ec := edns.VerifC05Consts()
	lastLabels := map[string]bool{}
	for _, z := range as112.VerifC05DefaultZones() {
		ls := dns.SplitDomainName(z)
		if len(ls) > 0 {
			lastLabels[strings.ToLower(ls[len(ls)-1])] = true
		} else {
			lastLabels["."] = true
		}
	}
	var tlds []string
	for l := range lastLabels {
		tlds = append(tlds, l)
	}
	sort.Strings(tlds)
	var recomposable []int
	for t := 0; t < 65536; t++ {
		if cache.VerifC05WireRecomposable(uint16(t)) {
			recomposable = append(recomposable, t)
		}
	}
	// the engines' header gate over its whole decision domain: opcode x QR, and each count around its bound
	var acceptOps, acceptCounts []int
	hdr := func(fl, qd, an, ns, ar int) []byte {
		return []byte{0, 1, byte(fl >> 8), byte(fl), byte(qd >> 8), byte(qd), byte(an >> 8), byte(an), byte(ns >> 8), byte(ns), byte(ar >> 8), byte(ar)}
	}
	for qr := 0; qr < 2; qr++ {
		for op := 0; op < 16; op++ {
			acceptOps = append(acceptOps, server.VerifC05AcceptHeader(hdr(qr<<15|op<<11, 1, 0, 0, 0)))
		}
	}
	for _, c := range [][4]int{{0, 0, 0, 0}, {1, 0, 0, 0}, {2, 0, 0, 0}, {1, 1, 0, 0}, {1, 2, 0, 0}, {1, 0, 1, 0}, {1, 0, 2, 0}, {1, 0, 0, 2}, {1, 0, 0, 3}, {1, 1, 1, 2}, {256, 0, 0, 0}} {
		acceptCounts = append(acceptCounts, server.VerifC05AcceptHeader(hdr(0x0100, c[0], c[1], c[2], c[3])))
	}
	return map[string]any{
		"acceptHeader_by_qr_opcode": acceptOps,
		"acceptHeader_by_counts":    acceptCounts,
		"as112_zone_last_labels":  tlds,
		"wire_recomposable_types": recomposable,
		"minMsgSizeLib":           dns.MinMsgSize, "maxMsgSizeLib": dns.MaxMsgSize,
		"applyReply_single_bits": bits,
		"applyReply_single_bits_op15_rd_cd": bitsSet,
		"applyReply_opcodes":     opc,
		"clearAD_single_bits":    clr,
		"flagQR":                 wire.FlagQR, "flagAA": wire.FlagAA, "flagTC": wire.FlagTC, "flagRD": wire.FlagRD,
		"flagRA": wire.FlagRA, "flagAD": wire.FlagAD, "flagCD": wire.FlagCD, "flagOpcodeMsk": wire.FlagOpcodeMsk, "flagOpcodeSh": wire.FlagOpcodeSh,
		"headerLen": wire.HeaderLen, "optFixedLen": ec["optFixedLen"], "optOptionHdrLen": ec["optOptionHdrLen"],
		"serverCookieLen": ec["serverCookieLen"], "clientCookieHexLen": ec["clientCookieHexLen"],
		"cookiePreimageMax": ec["cookiePreimageMax"], "maxTextualAddrLen": ec["maxTextualAddrLen"],
		"tcpKeepaliveUnits": ec["tcpKeepaliveUnits"],
		"codeCookie": int(dns.EDNS0COOKIE), "codeNSID": int(dns.EDNS0NSID), "codeKeepalive": int(dns.EDNS0TCPKEEPALIVE),
		"codeEDE": int(dns.EDNS0EDE), "codeSubnet": int(dns.EDNS0SUBNET), "codePadding": int(dns.EDNS0PADDING), "typeOPT": int(dns.TypeOPT),
		"defaultMsgSize": dnsutil.DefaultMsgSize, "minMsgSize": dns.MinMsgSize,
		"parsewire_cookie_lens_ok": cookieLens, "parsewire_keepalive_lens_ok": kaLens, "parsewire_option_codes_ok": codes,
		"parsewire_two_cookies_ok": twoCookies, "parsewire_max_label": maxLabel, "parsewire_max_name": maxName,
		"acceptHeader_query_qr0": server.VerifC05AcceptHeader([]byte{0, 1, 1, 0, 0, 1, 0, 0, 0, 0, 0, 0}),
	}
}

func main() {
	defer hsCleanup()
	defer stopLive()
	vlib.Main(&vlib.Driver{Facts: facts, Exec: exec, Gen: gen})
}
