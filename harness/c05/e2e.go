//go:build verif

package main

// End-to-end differential part of the C05 driver: the REAL server.Server
// (through harness/srvh) serves the same client question through the three
// entries the property names — Server.ServeRaw on a strict-slot job (wire
// path), Server.ServeRawInline + ServeRawReplay (inline pass + worker
// replay) and Server.ServeMsg (decoded path) — on isomorphic names (one
// marker character differs) whose cache state was prepared identically, and
// the oracle compares what the three clients observe.

import (
	"context"
	"crypto/sha256"
	"encoding/base32"
	"encoding/base64"
	"encoding/hex"
	"fmt"
	"net"
	"os"
	"path/filepath"
	"runtime"
	"sort"
	"strings"
	"sync/atomic"
	"time"

	"github.com/miekg/dns"
	"github.com/semihalev/sdns/config"
	"github.com/semihalev/sdns/internal/verif/srvh"
	"github.com/semihalev/sdns/internal/verif/vlib"
	"github.com/semihalev/sdns/middleware/cache"
	"github.com/semihalev/sdns/server"
)

const markers = "abc" // a: ServeRaw, b: ServeMsg, c: ServeRawInline(+Replay)

type liveCfg struct {
	handlers []string
	secret   string
	nsid     string
	crl      int // client rate limit (per minute)
	erl      int // per-entry rate limit
	prefetch int
	hosts    bool
	empty    bool
	rfc8198  bool
	rfc9520  bool
}

// AD verdicts the scripted upstream gives the `cnv` alias / `tgv` target (set per op).
var stubAliasAD, stubTargetAD bool

var strictOptOwner = os.Getenv("VERIF_C05_STRICT_OPT_OWNER") != ""

var (
	live    *srvh.Live
	liveC   liveCfg
	opSeq   int
	hasRL   bool
	hasEDNS bool
)

func kv(fields []string) map[string]string {
	m := map[string]string{}
	for _, f := range fields {
		k, v, ok := strings.Cut(f, "=")
		if ok {
			m[k] = v
		}
	}
	return m
}

func atoiD(s string, d int) int {
	if s == "" {
		return d
	}
	return vlib.Atoi(s)
}

// one line per name: on a shared line the later names are aliases (CNAMEs)
// of the first, which would make the three names structurally different
const hostsContent = `192.0.2.10 host1-a.zt
192.0.2.10 host1-b.zt
192.0.2.10 host1-c.zt
2001:db8::10 host1-a.zt
2001:db8::10 host1-b.zt
2001:db8::10 host1-c.zt
192.0.2.11 Host2-a.zt
192.0.2.11 Host2-b.zt
192.0.2.11 Host2-c.zt
192.0.2.12 *.wild-a.zt
192.0.2.12 *.wild-b.zt
192.0.2.12 *.wild-c.zt
192.0.2.13 only4-a.zt
192.0.2.13 only4-b.zt
192.0.2.13 only4-c.zt
192.0.2.14 canon-a.zt alias-a.zt
192.0.2.14 canon-b.zt alias-b.zt
192.0.2.14 canon-c.zt alias-c.zt
`

func stopLive() {
	if live != nil {
		live.Stop()
		live = nil
	}
}

func startLive(c liveCfg) {
	stopLive()
	liveC = c
	hasRL, hasEDNS = false, false
	for _, h := range c.handlers {
		if h == "ratelimit" {
			hasRL = true
		}
		if h == "edns" {
			hasEDNS = true
		}
	}
	live = srvh.Start(srvh.Opts{Handlers: c.handlers, Tweak: func(cfg *config.Config) {
		cfg.CookieSecret = c.secret
		cfg.NSID = c.nsid
		cfg.ClientRateLimit = c.crl
		cfg.RateLimit = c.erl
		cfg.Prefetch = uint32(c.prefetch)
		t, f := true, false
		if !c.rfc8198 {
			cfg.RFC8198 = &f
		} else {
			cfg.RFC8198 = &t
		}
		if !c.rfc9520 {
			cfg.RFC9520 = &f
		} else {
			cfg.RFC9520 = &t
		}
		if c.hosts {
			p := filepath.Join(cfg.Directory, "hosts")
			_ = os.WriteFile(p, []byte(hostsContent), 0o640)
			cfg.HostsFile = p
		}
		if c.empty {
			cfg.EmptyZones = []string{"10.in-addr.arpa.", "168.192.IN-ADDR.ARPA.", "d.f.ip6.arpa."}
		}
	}})
	live.Stub.Set(stubRespond)
	if live.Cache != nil {
		gate.starved.Store(false)
		live.Cache.SetDNSSECCryptoLimiter(gate)
	}
	opSeq = 0
	slabs = [4]*server.VerifJob{}
}

// ---------------------------------------------------------------- scripted upstream

func rr(s string) dns.RR {
	r, err := dns.NewRR(s)
	if err != nil {
		panic(err)
	}
	return r
}

func sig(owner string, covered uint16, zone string, ttl uint32) dns.RR {
	now := time.Now()
	return &dns.RRSIG{
		Hdr:         dns.RR_Header{Name: owner, Rrtype: dns.TypeRRSIG, Class: dns.ClassINET, Ttl: ttl},
		TypeCovered: covered, Algorithm: 13, Labels: uint8(dns.CountLabel(owner)), OrigTtl: ttl,
		Expiration: uint32(now.Add(48 * time.Hour).Unix()), Inception: uint32(now.Add(-time.Hour).Unix()),
		KeyTag: 4242, SignerName: zone, Signature: "c2lnbmF0dXJlc2lnbmF0dXJlc2lnbmF0dXJlc2lnbmF0dXJlc2lnbmF0dXJlc2lnbmF0dXJlc2lnbmF0dXJlc2ln",
	}
}

// bigSig is sig with an RSA-2048 sized (256 octet) signature: two of them make
// a denial proof larger than the classic 512 octet UDP buffer.
func bigSig(owner string, covered uint16, zone string, ttl uint32) dns.RR {
	r := sig(owner, covered, zone, ttl).(*dns.RRSIG)
	r.Algorithm = 8
	r.Signature = base64.StdEncoding.EncodeToString([]byte(strings.Repeat("rsa-2048-signature-octets-", 10))[:256])
	return r
}

// zoneOf returns the last two labels ("<uniq>-<m>.zt.").
func zoneOf(name string) string {
	labels := dns.SplitDomainName(name)
	if len(labels) < 2 {
		return "."
	}
	return strings.ToLower(strings.Join(labels[len(labels)-2:], ".") + ".")
}

func restOf(name string) string {
	i, end := dns.NextLabel(name, 0)
	if end {
		return "."
	}
	return name[i:]
}

// under returns label.zone (root-safe).
func under(label, zone string) string {
	if zone == "." {
		return label + "."
	}
	return label + "." + zone
}

func soaFor(zone string, ttl uint32) dns.RR {
	return &dns.SOA{Hdr: dns.RR_Header{Name: zone, Rrtype: dns.TypeSOA, Class: dns.ClassINET, Ttl: ttl}, Ns: under("ns1", zone), Mbox: under("hostmaster", zone),
		Serial: 2026092501, Refresh: 7200, Retry: 3600, Expire: 1209600, Minttl: ttl}
}

// stubRespond is the scripted upstream: a static function of the question.
// The first label (case-folded, up to the first digit) selects the scenario.
func stubRespond(req *dns.Msg) *dns.Msg {
	q := req.Question[0]
	m := new(dns.Msg)
	m.SetReply(req)
	m.RecursionAvailable = true
	first := ""
	if labels := dns.SplitDomainName(q.Name); len(labels) > 0 {
		first = strings.ToLower(labels[0])
	}
	scn := strings.TrimRight(first, "0123456789")
	zone := zoneOf(q.Name)
	owner := q.Name
	addr := func() {
		switch q.Qtype {
		case dns.TypeA:
			m.Answer = append(m.Answer, &dns.A{Hdr: dns.RR_Header{Name: owner, Rrtype: dns.TypeA, Class: q.Qclass, Ttl: 300}, A: net.IPv4(192, 0, 2, 1)})
		case dns.TypeAAAA:
			m.Answer = append(m.Answer, &dns.AAAA{Hdr: dns.RR_Header{Name: owner, Rrtype: dns.TypeAAAA, Class: q.Qclass, Ttl: 300}, AAAA: net.ParseIP("2001:db8::1")})
		case dns.TypeTXT:
			m.Answer = append(m.Answer, &dns.TXT{Hdr: dns.RR_Header{Name: owner, Rrtype: dns.TypeTXT, Class: q.Qclass, Ttl: 300}, Txt: []string{"hello", "world"}})
		case dns.TypeMX:
			m.Answer = append(m.Answer, &dns.MX{Hdr: dns.RR_Header{Name: owner, Rrtype: dns.TypeMX, Class: q.Qclass, Ttl: 300}, Preference: 10, Mx: under("mail", zone)})
		default:
			m.Ns = append(m.Ns, soaFor(zone, 300))
		}
	}
	switch scn {
	case "pos", "tgt", "host", "only", "x":
		addr()
	case "two":
		if q.Qtype == dns.TypeA {
			m.Answer = append(m.Answer,
				&dns.A{Hdr: dns.RR_Header{Name: owner, Rrtype: dns.TypeA, Class: q.Qclass, Ttl: 300}, A: net.IPv4(192, 0, 2, 1)},
				&dns.A{Hdr: dns.RR_Header{Name: owner, Rrtype: dns.TypeA, Class: q.Qclass, Ttl: 120}, A: net.IPv4(192, 0, 2, 2)})
			m.Extra = append(m.Extra, &dns.A{Hdr: dns.RR_Header{Name: under("ns1", zone), Rrtype: dns.TypeA, Class: q.Qclass, Ttl: 600}, A: net.IPv4(192, 0, 2, 53)})
			m.Ns = append(m.Ns, &dns.NS{Hdr: dns.RR_Header{Name: zone, Rrtype: dns.TypeNS, Class: q.Qclass, Ttl: 600}, Ns: under("ns1", zone)})
		} else {
			addr()
		}
	case "cn", "cnf", "cnx", "cns", "cnl":
		// alias: cn<k> -> cn<k-1> -> ... -> tgt ; cnf answers the full chain
		// in one response; cnx ends in NXDOMAIN; cns ends in SERVFAIL; cnl loops.
		if q.Qtype == dns.TypeCNAME {
			m.Answer = append(m.Answer, &dns.CNAME{Hdr: dns.RR_Header{Name: owner, Rrtype: dns.TypeCNAME, Class: q.Qclass, Ttl: 200}, Target: under("tgt", restOf(q.Name))})
			break
		}
		k := 0
		fmt.Sscanf(first[len(scn):], "%d", &k)
		target := under("tgt", restOf(q.Name))
		switch {
		case scn == "cnl":
			target = q.Name
			if k > 0 {
				target = under(fmt.Sprintf("cnl%d", k-1), restOf(q.Name))
			}
		case k > 1:
			target = under(fmt.Sprintf("%s%d", scn, k-1), restOf(q.Name))
		case scn == "cnx":
			target = under("nx", restOf(q.Name))
		case scn == "cns":
			target = under("sf", restOf(q.Name))
		}
		m.Answer = append(m.Answer, &dns.CNAME{Hdr: dns.RR_Header{Name: owner, Rrtype: dns.TypeCNAME, Class: q.Qclass, Ttl: 200}, Target: target})
		if scn == "cnf" && q.Qtype == dns.TypeA {
			m.Answer = append(m.Answer, &dns.A{Hdr: dns.RR_Header{Name: target, Rrtype: dns.TypeA, Class: q.Qclass, Ttl: 300}, A: net.IPv4(192, 0, 2, 1)})
		}
	case "cnv":
		// mixed-validation chain: the alias and its (shorter-lived) target carry
		// the AD verdict the running op scripted for each
		m.Answer = append(m.Answer, &dns.CNAME{Hdr: dns.RR_Header{Name: owner, Rrtype: dns.TypeCNAME, Class: q.Qclass, Ttl: 200}, Target: under("tgv", restOf(q.Name))})
		m.AuthenticatedData = stubAliasAD
	case "tgv":
		if q.Qtype == dns.TypeA {
			m.Answer = append(m.Answer, &dns.A{Hdr: dns.RR_Header{Name: owner, Rrtype: dns.TypeA, Class: q.Qclass, Ttl: 60}, A: net.IPv4(192, 0, 2, 77)})
		} else {
			m.Ns = append(m.Ns, soaFor(zone, 60))
		}
		m.AuthenticatedData = stubTargetAD
	case "sig", "sgt":
		addr()
		if len(m.Answer) > 0 {
			m.Answer = append(m.Answer, sig(owner, q.Qtype, zone, 300))
		} else {
			m.Ns = append(m.Ns, sig(zone, dns.TypeSOA, zone, 300),
				&dns.NSEC{Hdr: dns.RR_Header{Name: owner, Rrtype: dns.TypeNSEC, Class: q.Qclass, Ttl: 300}, NextDomain: under("zz", zone), TypeBitMap: []uint16{dns.TypeA, dns.TypeRRSIG, dns.TypeNSEC}},
				sig(owner, dns.TypeNSEC, zone, 300))
		}
		m.AuthenticatedData = true
	case "cng", "cnu":
		// signed alias to a signed target (sgt) / to an unsigned one (tgt): the
		// composed answer is authenticated only if every hop is
		target := under("sgt", restOf(q.Name))
		if scn == "cnu" {
			target = under("tgt", restOf(q.Name))
		}
		m.Answer = append(m.Answer, &dns.CNAME{Hdr: dns.RR_Header{Name: owner, Rrtype: dns.TypeCNAME, Class: q.Qclass, Ttl: 200}, Target: target}, sig(owner, dns.TypeCNAME, zone, 200))
		m.AuthenticatedData = true
	case "nx":
		m.Rcode = dns.RcodeNameError
		m.Ns = append(m.Ns, soaFor(zone, 180))
	case "nxs":
		m.Rcode = dns.RcodeNameError
		m.AuthenticatedData = true
		m.Ns = append(m.Ns, signedDenial(q.Name, zone)...)
	case "nd":
		m.Ns = append(m.Ns, soaFor(zone, 180))
	case "ede", "edn":
		if scn == "ede" {
			addr()
		} else {
			m.Rcode = dns.RcodeNameError
			m.Ns = append(m.Ns, soaFor(zone, 180))
		}
		o := new(dns.OPT)
		o.Hdr.Name, o.Hdr.Rrtype = ".", dns.TypeOPT
		o.SetUDPSize(1232)
		o.Option = append(o.Option, &dns.EDNS0_EDE{InfoCode: dns.ExtendedErrorCodeStaleAnswer, ExtraText: "upstream says stale"})
		m.Extra = append(m.Extra, o)
	case "cnr":
		// alias onto terminals whose RDATA holds names the packer compresses
		m.Answer = append(m.Answer, &dns.CNAME{Hdr: dns.RR_Header{Name: owner, Rrtype: dns.TypeCNAME, Class: q.Qclass, Ttl: 200}, Target: under("rtg", restOf(q.Name))})
	case "rtg":
		h := func(t uint16) dns.RR_Header { return dns.RR_Header{Name: owner, Rrtype: t, Class: q.Qclass, Ttl: 300} }
		switch q.Qtype {
		case dns.TypePTR:
			m.Answer = append(m.Answer, &dns.PTR{Hdr: h(dns.TypePTR), Ptr: under("alpha.hosts", zone)}, &dns.PTR{Hdr: h(dns.TypePTR), Ptr: under("beta.hosts", zone)})
		case dns.TypeMX:
			m.Answer = append(m.Answer, &dns.MX{Hdr: h(dns.TypeMX), Preference: 10, Mx: under("mx1", zone)}, &dns.MX{Hdr: h(dns.TypeMX), Preference: 20, Mx: under("mx2", zone)})
		case dns.TypeNS:
			m.Answer = append(m.Answer, &dns.NS{Hdr: h(dns.TypeNS), Ns: under("ns1", zone)}, &dns.NS{Hdr: h(dns.TypeNS), Ns: under("ns2", zone)})
		case dns.TypeSRV:
			m.Answer = append(m.Answer, &dns.SRV{Hdr: h(dns.TypeSRV), Priority: 1, Weight: 2, Port: 53, Target: under("srv", zone)})
		case dns.TypeSOA:
			m.Answer = append(m.Answer, soaFor(owner, 300))
		default:
			addr()
		}
	case "cnb":
		// alias onto a terminal that does not fit a 512-octet buffer: the composed reply
		// passes the walk and fails the size gate
		m.Answer = append(m.Answer, &dns.CNAME{Hdr: dns.RR_Header{Name: owner, Rrtype: dns.TypeCNAME, Class: q.Qclass, Ttl: 200}, Target: under("bgt", restOf(q.Name))})
	case "bgt":
		if q.Qtype == dns.TypeTXT {
			for i := 0; i < 12; i++ {
				m.Answer = append(m.Answer, &dns.TXT{Hdr: dns.RR_Header{Name: owner, Rrtype: dns.TypeTXT, Class: q.Qclass, Ttl: 300}, Txt: []string{fmt.Sprintf("%02d-%s", i, strings.Repeat("z", 50))}})
			}
		} else {
			addr()
		}
	case "big":
		for i := 0; i < 30; i++ {
			m.Answer = append(m.Answer, &dns.TXT{Hdr: dns.RR_Header{Name: owner, Rrtype: dns.TypeTXT, Class: q.Qclass, Ttl: 300}, Txt: []string{fmt.Sprintf("%02d-%s", i, strings.Repeat("x", 50))}})
		}
	case "mid":
		// between 512 and 1232
		for i := 0; i < 12; i++ {
			m.Answer = append(m.Answer, &dns.TXT{Hdr: dns.RR_Header{Name: owner, Rrtype: dns.TypeTXT, Class: q.Qclass, Ttl: 300}, Txt: []string{fmt.Sprintf("%02d-%s", i, strings.Repeat("y", 50))}})
		}
	case "sf":
		m.Rcode = dns.RcodeServerFailure
	case "sfe":
		m.Rcode = dns.RcodeServerFailure
		o := new(dns.OPT)
		o.Hdr.Name, o.Hdr.Rrtype = ".", dns.TypeOPT
		o.SetUDPSize(1232)
		o.Option = append(o.Option, &dns.EDNS0_EDE{InfoCode: dns.ExtendedErrorCodeNetworkError, ExtraText: "upstream unreachable"})
		m.Extra = append(m.Extra, o)
	case "ref":
		m.Rcode = dns.RcodeRefused
	case "tc":
		addr()
		m.Truncated = true
	case "aa":
		addr()
		m.Authoritative = true
	case "nil":
		return nil
	default:
		m.Rcode = dns.RcodeNameError
		m.Ns = append(m.Ns, soaFor(zone, 180))
	}
	return m
}

func signedDenial(denied, zone string) []dns.RR {
	soa := soaFor(zone, 180)
	return []dns.RR{
		soa, bigSig(zone, dns.TypeSOA, zone, 180),
		&dns.NSEC{Hdr: dns.RR_Header{Name: zone, Rrtype: dns.TypeNSEC, Class: dns.ClassINET, Ttl: 180}, NextDomain: under("zz", zone), TypeBitMap: []uint16{dns.TypeSOA, dns.TypeNS, dns.TypeRRSIG, dns.TypeNSEC}},
		bigSig(zone, dns.TypeNSEC, zone, 180),
	}
}

// ---------------------------------------------------------------- replies

type reply struct {
	class  string // drop | undecodable | multi | rcode name
	raw    []byte
	m      *dns.Msg
	strict bool
	inline string // for path c: "inline" | "replay" | "-"
}

func fromWrites(ws [][]byte, handled bool) reply {
	if !handled {
		return reply{class: "undecodable"}
	}
	if len(ws) == 0 {
		return reply{class: "drop"}
	}
	if len(ws) > 1 {
		return reply{class: fmt.Sprintf("multi%d", len(ws))}
	}
	m := new(dns.Msg)
	if err := m.Unpack(ws[0]); err != nil {
		return reply{class: "garbled", raw: ws[0]}
	}
	return reply{class: "r" + fmt.Sprint(m.Rcode), raw: ws[0], m: m}
}

func fromMsgWriter(w *srvh.MsgWriter) reply {
	if len(w.Msgs) == 0 {
		return reply{class: "drop"}
	}
	if len(w.Msgs) > 1 {
		return reply{class: fmt.Sprintf("multi%d", len(w.Msgs))}
	}
	var b []byte
	if len(w.Raws) == 1 {
		b = w.Raws[0]
	} else {
		var err error
		b, err = w.Msgs[0].Pack()
		if err != nil {
			return reply{class: "unpackable"}
		}
	}
	m := new(dns.Msg)
	if err := m.Unpack(b); err != nil {
		return reply{class: "garbled", raw: b}
	}
	return reply{class: "r" + fmt.Sprint(m.Rcode), raw: b, m: m}
}

func remoteFor(path int, proto string, v6 bool, n int) net.Addr {
	var ip net.IP
	if !hasRL {
		// one client for all three paths: cookies are then byte-comparable
		path = 0
	}
	if v6 {
		ip = net.ParseIP(fmt.Sprintf("2001:db8:%x::%x", 0xa+path, n+1))
	} else {
		ip = net.IPv4(100, byte(64+16*path), byte(n>>8), byte(n))
	}
	if proto == "tcp" {
		return &net.TCPAddr{IP: ip, Port: 40000 + path}
	}
	return &net.UDPAddr{IP: ip, Port: 40000 + path}
}

// settle waits until every background refresh the last serve queued has
// finished (write-back and cut publication included), so that a prefetch-due
// hit has the same, reproducible consequence on every path: the next serve
// sees the refreshed entry. No sleeping: it yields until the worker released
// its claim.
func settle() {
	if live == nil || live.Cache == nil || liveC.prefetch == 0 {
		return
	}
	claims := cache.VerifC05PrefetchClaims(live.Cache)
	deadline := time.Now().Add(5 * time.Second)
	for cache.VerifC05PrefetchBusy(live.Cache, claims) {
		if time.Now().After(deadline) {
			panic("c05: background refresh did not finish")
		}
		runtime.Gosched()
	}
}

// The owned UDP/TCP engines serve every packet of a socket on a small set of
// job slabs whose transmit buffer is leased to the byte path UNSCRUBBED: it
// still holds the previous reply. The driver therefore keeps one job per path
// for the life of an instance (as an engine does) and, before each serve,
// overwrites the slab with a poison byte, so that any header bit or body byte
// a wire builder does not write itself shows up in the reply.
var slabs [4]*server.VerifJob // 0 ServeRaw, 2 ServeRawInline(+Replay), 3 warm-up / follow-up clients

var poisonByte byte = 0xFF

// serveAge: how long ago the transport read the packet the measured serves are about to
// handle (a packet can wait in an engine's queue). Past the query timeout every ingress
// must drop it unanswered and uncharged.
var serveAge time.Duration

func readTime() time.Time { return time.Now().Add(-serveAge) }

func slab(i int, remote net.Addr) *server.VerifJob {
	if slabs[i] == nil {
		slabs[i] = &server.VerifJob{}
	}
	j := slabs[i]
	j.Remote = remote
	j.Writes = nil
	server.VerifC05PoisonTX(j, poisonByte)
	return j
}

// rawOn is srvh.Live.Raw on a reused, poisoned job slab.
func rawOn(i int, pkt []byte, remote net.Addr) ([][]byte, bool, bool) {
	j := slab(i, remote)
	handled := live.Srv.ServeRaw(j, pkt, readTime())
	return j.Writes, handled, j.VerifTookStrict()
}

// rawInlineOn is srvh.Live.RawInline on a reused, poisoned job slab.
func rawInlineOn(i int, pkt []byte, remote net.Addr) (writes [][]byte, inlineHandled, replayed bool) {
	j := slab(i, remote)
	if !live.Srv.InlineReady() {
		live.Srv.ServeRaw(j, pkt, readTime())
		return j.Writes, false, false
	}
	inlineHandled = live.Srv.ServeRawInline(j, pkt, readTime())
	if !inlineHandled {
		replayed = true
		live.Srv.ServeRawReplay(j, pkt, readTime())
	}
	return j.Writes, inlineHandled, replayed
}

func rawSettled(pkt []byte, remote net.Addr) ([][]byte, bool, bool) {
	defer settle()
	return rawOn(3, pkt, remote)
}

func msgSettled(m *dns.Msg, remote net.Addr, proto string) *srvh.MsgWriter {
	defer settle()
	return live.Msg(m, remote, proto) // settle: deferred
}

// serve sends one packet through the entry of the given path.
func serve(path int, pkt []byte, remote net.Addr, proto string) reply {
	defer settle()
	switch path {
	case 0:
		ws, handled, strict := rawOn(0, pkt, remote)
		r := fromWrites(ws, handled)
		r.strict = strict
		return r
	case 1:
		m := new(dns.Msg)
		if err := m.Unpack(pkt); err != nil {
			return reply{class: "undecodable"}
		}
		if serveAge > 0 {
			// the decoded entry has no read time: its caller's context carries the budget
			ctx, cancel := context.WithDeadline(context.Background(), readTime().Add(live.Cfg.QueryTimeout.Duration))
			defer cancel()
			w := &srvh.MsgWriter{Remote: remote, ProtoS: proto}
			live.Srv.ServeMsg(ctx, w, m)
			return fromMsgWriter(w)
		}
		return fromMsgWriter(live.Msg(m, remote, proto)) // settle: deferred
	default:
		ws, inl, replayed := rawInlineOn(2, pkt, remote)
		// RawInline cannot report an undecodable body: classify like ServeRaw does.
		if len(ws) == 0 && replayed {
			m := new(dns.Msg)
			if err := m.Unpack(pkt); err != nil {
				return reply{class: "undecodable"}
			}
		}
		r := fromWrites(ws, true)
		r.inline = "replay"
		if inl {
			r.inline = "inline"
		}
		return r
	}
}

func unmark(s string) string {
	for _, m := range markers {
		s = strings.ReplaceAll(s, "-"+string(m)+".", "-@.")
	}
	return s
}

type canonRR struct {
	owner, rest string
	ttl         uint32
}

func canonSection(rrs []dns.RR) []canonRR {
	var out []canonRR
	for _, r := range rrs {
		if r.Header().Rrtype == dns.TypeOPT {
			continue
		}
		h := r.Header()
		full := r.String()
		hs := h.String()
		rdata := strings.TrimPrefix(full, hs)
		rest := fmt.Sprintf("%s %s %s", dns.Class(h.Class).String(), dns.Type(h.Rrtype).String(), rdata)
		if sg, ok := r.(*dns.RRSIG); ok {
			// the validity window is wall-clock derived in the stub: keep all other fields
			rest = fmt.Sprintf("IN RRSIG %d %d %d %d %s", sg.TypeCovered, sg.Algorithm, sg.Labels, sg.KeyTag, sg.SignerName)
		}
		owner := unmark(strings.ToLower(h.Name))
		if n3, ok := r.(*dns.NSEC3); ok {
			// owner label and next-hashed-owner are hashes of the (isomorphic, not equal) zone
			// names: compare everything else
			if i := strings.Index(owner, "."); i >= 0 {
				owner = "<hash>" + owner[i:]
			}
			rest = fmt.Sprintf("IN NSEC3 %d %d %d %s <next> %v", n3.Hash, n3.Flags, n3.Iterations, n3.Salt, n3.TypeBitMap)
		}
		if sg, ok := r.(*dns.RRSIG); ok && sg.TypeCovered == dns.TypeNSEC3 {
			if i := strings.Index(owner, "."); i >= 0 {
				owner = "<hash>" + owner[i:]
			}
		}
		switch h.Rrtype {
		case dns.TypeNS, dns.TypeCNAME, dns.TypeSOA, dns.TypePTR, dns.TypeMX, dns.TypeDNAME, dns.TypeSRV:
			// names inside this RDATA may be compression pointers into the echoed
			// question and then decode with the client's spelling (see notes/C05.md)
			rest = strings.ToLower(rest)
		}
		out = append(out, canonRR{owner: owner, rest: unmark(rest), ttl: h.Ttl})
	}
	return out
}

func flagWord(m *dns.Msg) string {
	b := func(x bool) string {
		if x {
			return "1"
		}
		return "0"
	}
	return fmt.Sprintf("qr%s op%d aa%s tc%s rd%s ra%s z%s ad%s cd%s rc%d", b(m.Response), m.Opcode, b(m.Authoritative), b(m.Truncated),
		b(m.RecursionDesired), b(m.RecursionAvailable), b(m.Zero), b(m.AuthenticatedData), b(m.CheckingDisabled), m.Rcode)
}

// expectedServerCookie is RFC 7873 as sdns documents it, spelled out
// independently: client half ‖ SHA-256(text(ip) ‖ hex(client half) ‖ secret).
func expectedServerCookie(ip net.IP, client []byte, secret string) []byte {
	if v4 := ip.To4(); v4 != nil {
		ip = v4
	}
	h := sha256.New()
	h.Write([]byte(ip.String()))
	h.Write([]byte(hex.EncodeToString(client)))
	h.Write([]byte(secret))
	return append(append([]byte(nil), client...), h.Sum(nil)...)
}

func canonOPT(m *dns.Msg, remote net.Addr, clientCookie []byte) string {
	opt := m.IsEdns0()
	if opt == nil {
		return "noopt"
	}
	var ip net.IP
	switch a := remote.(type) {
	case *net.UDPAddr:
		ip = a.IP
	case *net.TCPAddr:
		ip = a.IP
	}
	var os []string
	for _, o := range opt.Option {
		switch v := o.(type) {
		case *dns.EDNS0_COOKIE:
			raw, _ := hex.DecodeString(v.Cookie)
			want := expectedServerCookie(ip, clientCookie, liveC.secret)
			switch {
			case len(clientCookie) == 8 && string(raw) == string(want):
				os = append(os, "10:server-cookie-for-this-client")
			case len(clientCookie) == 8 && len(raw) >= 8 && string(raw[:8]) == string(clientCookie):
				os = append(os, fmt.Sprintf("10:client-half+%d-other-octets", len(raw)-8))
			default:
				os = append(os, "10:"+v.Cookie)
			}
		case *dns.EDNS0_NSID:
			os = append(os, "3:"+v.Nsid)
		case *dns.EDNS0_EDE:
			os = append(os, fmt.Sprintf("15:%d:%s", v.InfoCode, v.ExtraText))
		case *dns.EDNS0_TCP_KEEPALIVE:
			os = append(os, fmt.Sprintf("11:%d", v.Timeout))
		default:
			os = append(os, fmt.Sprintf("%d:%s", o.Option(), o.String()))
		}
	}
	sort.Strings(os)
	n := 0
	for _, r := range m.Extra {
		if r.Header().Rrtype == dns.TypeOPT {
			n++
		}
	}
	owner := ""
	if strictOptOwner {
		// not among the EDNS facts the property lists (version/size/DO/options); see notes/C05.md
		owner = " owner=" + opt.Hdr.Name
	}
	return fmt.Sprintf("opt n=%d%s udp=%d ver=%d do=%v xr=%d z=%x [%s]", n, owner, opt.UDPSize(), opt.Version(), opt.Do(), opt.ExtendedRcode()>>4, opt.Hdr.Ttl&0x7fff, strings.Join(os, " "))
}

type sentInfo struct {
	pkt    []byte
	remote net.Addr
	cookie []byte // client cookie half the packet carried (8 bytes) or nil
}

// diff compares what two clients observed. Returns "" or "<kind> <detail>".
func diff(na, nb string, a, b reply, sa, sb sentInfo) string {
	if a.class != b.class {
		return fmt.Sprintf("classification %s=%s %s=%s", na, a.class, nb, b.class)
	}
	if a.m == nil || b.m == nil {
		return ""
	}
	ma, mb := a.m, b.m
	if os.Getenv("VERIF_C05_DEBUG") != "" {
		fmt.Fprintf(os.Stderr, "--- %s\n%s\n--- %s\n%s\n", na, ma.String(), nb, mb.String())
	}
	// id / question: each client must see its own packet's id and question spelling
	for _, x := range []struct {
		n string
		m *dns.Msg
		s sentInfo
	}{{na, ma, sa}, {nb, mb, sb}} {
		if len(x.s.pkt) >= 2 && x.m.Id != uint16(x.s.pkt[0])<<8|uint16(x.s.pkt[1]) {
			return fmt.Sprintf("id %s id=%d", x.n, x.m.Id)
		}
		q := new(dns.Msg)
		if err := q.Unpack(x.s.pkt); err == nil && len(q.Question) == 1 && len(x.m.Question) == 1 {
			if q.Question[0] != x.m.Question[0] {
				return fmt.Sprintf("question %s sent=%v got=%v", x.n, q.Question[0], x.m.Question[0])
			}
		}
	}
	if len(ma.Question) != len(mb.Question) {
		return fmt.Sprintf("question count %s=%d %s=%d", na, len(ma.Question), nb, len(mb.Question))
	}
	if fa, fb := flagWord(ma), flagWord(mb); fa != fb {
		return fmt.Sprintf("flags %s=[%s] %s=[%s]", na, fa, nb, fb)
	}
	secs := []struct {
		n    string
		a, b []dns.RR
	}{{"answer", ma.Answer, mb.Answer}, {"authority", ma.Ns, mb.Ns}, {"additional", ma.Extra, mb.Extra}}
	for _, s := range secs {
		ca, cb := canonSection(s.a), canonSection(s.b)
		if len(ca) != len(cb) {
			return fmt.Sprintf("section %s count %s=%d %s=%d", s.n, na, len(ca), nb, len(cb))
		}
		for i := range ca {
			if ca[i].owner != cb[i].owner || ca[i].rest != cb[i].rest {
				return fmt.Sprintf("section %s[%d] %s=[%s %s] %s=[%s %s]", s.n, i, na, ca[i].owner, ca[i].rest, nb, cb[i].owner, cb[i].rest)
			}
		}
		for i := range ca {
			d := int64(ca[i].ttl) - int64(cb[i].ttl)
			if d < -1 || d > 1 {
				return fmt.Sprintf("ttl %s[%d] %s=%d %s=%d", s.n, i, na, ca[i].ttl, nb, cb[i].ttl)
			}
		}
	}
	if oa, ob := canonOPT(ma, sa.remote, sa.cookie), canonOPT(mb, sb.remote, sb.cookie); oa != ob {
		return fmt.Sprintf("opt %s=[%s] %s=[%s]", na, oa, nb, ob)
	}
	return ""
}

func inl1(r reply) string {
	if r.inline == "" {
		return "-"
	}
	return r.inline[:1]
}

func sigOf(d string) string {
	k, _, _ := strings.Cut(d, " ")
	switch k {
	case "classification", "flags", "ttl", "opt", "section", "question", "id":
		return "c05/diff/" + k
	}
	return "c05/diff/" + k
}

// ---------------------------------------------------------------- packets

type qspec struct {
	name   string // presentation, '@' = marker placeholder
	qtype  uint16
	qclass uint16
	id     uint16
	rd     bool
	cd     bool
	ad     bool
	edns   bool
	usz    uint16
	do     bool
	ver    uint8
	cookie string // "-" none, "c" client only, "e" echo (client + server half from the previous reply), "s" stale server half
	nsid   bool
	ka     bool
	pad    int
	ecs    bool
}

func (s qspec) build(marker byte, prevCookie []byte, clientCookie []byte) []byte {
	m := new(dns.Msg)
	m.Id = s.id
	m.RecursionDesired = s.rd
	m.CheckingDisabled = s.cd
	m.AuthenticatedData = s.ad
	m.Question = []dns.Question{{Name: strings.ReplaceAll(s.name, "@", string(marker)), Qtype: s.qtype, Qclass: s.qclass}}
	if s.edns {
		o := new(dns.OPT)
		o.Hdr.Name, o.Hdr.Rrtype = ".", dns.TypeOPT
		o.SetUDPSize(s.usz)
		o.SetVersion(s.ver)
		if s.do {
			o.SetDo()
		}
		switch s.cookie {
		case "c":
			o.Option = append(o.Option, &dns.EDNS0_COOKIE{Code: dns.EDNS0COOKIE, Cookie: hex.EncodeToString(clientCookie)})
		case "e":
			c := clientCookie
			if len(prevCookie) > 8 {
				c = prevCookie
			}
			o.Option = append(o.Option, &dns.EDNS0_COOKIE{Code: dns.EDNS0COOKIE, Cookie: hex.EncodeToString(c)})
		case "s":
			stale := append(append([]byte(nil), clientCookie...), make([]byte, 32)...)
			o.Option = append(o.Option, &dns.EDNS0_COOKIE{Code: dns.EDNS0COOKIE, Cookie: hex.EncodeToString(stale)})
		}
		if s.nsid {
			o.Option = append(o.Option, &dns.EDNS0_NSID{Code: dns.EDNS0NSID})
		}
		if s.ka {
			o.Option = append(o.Option, &dns.EDNS0_TCP_KEEPALIVE{Code: dns.EDNS0TCPKEEPALIVE})
		}
		if s.pad > 0 {
			o.Option = append(o.Option, &dns.EDNS0_PADDING{Padding: make([]byte, s.pad)})
		}
		if s.ecs {
			o.Option = append(o.Option, &dns.EDNS0_SUBNET{Code: dns.EDNS0SUBNET, Family: 1, SourceNetmask: 24, Address: net.IPv4(198, 51, 100, 0)})
		}
		m.Extra = append(m.Extra, o)
	}
	b, err := m.Pack()
	if err != nil {
		panic("pack query: " + err.Error())
	}
	return b
}

func replyCookie(r reply) []byte {
	if r.m == nil {
		return nil
	}
	if opt := r.m.IsEdns0(); opt != nil {
		for _, o := range opt.Option {
			if c, ok := o.(*dns.EDNS0_COOKIE); ok {
				b, _ := hex.DecodeString(c.Cookie)
				return b
			}
		}
	}
	return nil
}

// proofFor builds the validated NXDOMAIN proof message a resolver would
// hand the cache for denied name `denied` in `zone`.
func proofFor(denied, zone string) *dns.Msg {
	m := new(dns.Msg)
	m.Response = true
	m.Rcode = dns.RcodeNameError
	m.RecursionAvailable = true
	m.AuthenticatedData = true
	m.Question = []dns.Question{{Name: denied, Qtype: dns.TypeA, Qclass: dns.ClassINET}}
	m.Ns = signedDenial(denied, zone)
	return m
}

// ---------------------------------------------------------------- ops

func execE2E(f []string) vlib.Res {
	switch f[1] {
	case "new":
		a := kv(f[2:])
		c := liveCfg{
			handlers: strings.Split(a["h"], ","),
			crl:      atoiD(a["crl"], 0), erl: atoiD(a["erl"], 0), prefetch: atoiD(a["prefetch"], 0),
			hosts: a["hosts"] == "1", empty: a["empty"] == "1",
			rfc8198: a["rfc8198"] != "0", rfc9520: a["rfc9520"] != "0",
		}
		if a["secret"] != "" && a["secret"] != "-" {
			c.secret = string(vlib.UnHex(a["secret"]))
		}
		if a["nsid"] != "" && a["nsid"] != "-" {
			c.nsid = string(vlib.UnHex(a["nsid"]))
		}
		startLive(c)
		return vlib.Res{Impl: "ok", Oracle: "-"}
	case "stop":
		stopLive()
		return vlib.Res{Impl: "ok", Oracle: "-"}
	case "q":
		return execQ(kv(f[2:]))
	case "raw":
		return execRaw(kv(f[2:]))
	case "seq":
		return execSeq(kv(f[2:]))
	}
	return vlib.Res{Impl: "bad-op"}
}

func boolS(s string) bool { return s == "1" || s == "t" }

// seedState prepares the cache for the three isomorphic names.
func seedState(a map[string]string, names [3]string, qtype uint16, cd bool) {
	for p := 0; p < 3; p++ {
		zone := zoneOf(names[p])
		if a["cut"] == "1" {
			// the denied name is the label right below the zone
			labels := dns.SplitDomainName(names[p])
			if len(labels) >= 3 {
				denied := strings.ToLower(strings.Join(labels[len(labels)-3:], ".") + ".")
				cache.VerifC05RecordCut(live.Cache, proofFor(denied, zone), denied, zone)
			}
		}
		switch a["fail"] {
		case "q":
			m := new(dns.Msg)
			m.SetQuestion(names[p], qtype)
			m.Question[0].Qclass = uint16(atoiD(a["qc"], 1))
			m.CheckingDisabled = cd
			cache.VerifC05RecordFailure(live.Cache, m)
		case "z":
			cache.VerifC05RecordZoneFailure(live.Cache, dns.Question{Name: names[p], Qtype: qtype, Qclass: uint16(atoiD(a["qc"], 1))}, zone)
		}
	}
}

func execQ(a map[string]string) vlib.Res {
	if live == nil {
		return vlib.Res{Impl: "no-live"}
	}
	opSeq++
	n := opSeq
	s := qspec{
		name: a["name"], qtype: uint16(atoiD(a["qt"], 1)), qclass: uint16(atoiD(a["qc"], 1)), id: uint16(atoiD(a["id"], 4660)),
		rd: a["rd"] != "0", cd: boolS(a["cd"]), ad: boolS(a["ad"]), edns: a["edns"] != "0", usz: uint16(atoiD(a["usz"], 1232)),
		do: boolS(a["do"]), ver: uint8(atoiD(a["ver"], 0)), cookie: a["ck"], nsid: boolS(a["nsid"]), ka: boolS(a["ka"]),
		pad: atoiD(a["pad"], 0), ecs: boolS(a["ecs"]),
	}
	if s.cookie == "" {
		s.cookie = "-"
	}
	proto := a["proto"]
	if proto == "" {
		proto = "udp"
	}
	v6 := boolS(a["v6"])
	rep := atoiD(a["rep"], 1)
	shift := atoiD(a["shift"], 0)
	warm := a["warm"]
	clientCookie := []byte{0xc0, 0x05, byte(n >> 8), byte(n), 1, 2, 3, 4}
	if mix := a["mix"]; len(mix) == 3 {
		// alias AD x first target AD x AD of the re-admitted target
		stubAliasAD, stubTargetAD = mix[0] == '1', mix[1] == '1'
		defer func() { stubAliasAD, stubTargetAD = false, false }()
		if warm != "raw" && warm != "msg" {
			warm = "raw"
		}
		shift = 100
	}

	var names [3]string
	var remotes [3]net.Addr
	for p := 0; p < 3; p++ {
		names[p] = strings.ReplaceAll(s.name, "@", string(markers[p]))
		remotes[p] = remoteFor(p, proto, v6, n)
	}
	if live.Cache != nil {
		seedState(a, names, s.qtype, s.cd)
	}
	if liveC.erl > 0 {
		cache.VerifC05ResetEntryLimiters()
	}

	// RFC 8198 state: an NSEC3 proof covering the name; with starve=1 the warm-up runs while
	// the crypto budget is exhausted (the denial rung misses, resolution is attempted)
	if a["nsec3"] == "1" && live.Cache != nil {
		seedDenial(names)
		if a["starve"] == "1" {
			gate.starved.Store(true)
		}
	}
	// warm-up: the same plain question through the same entry for all three names
	callsBefore := live.Stub.Calls.Load()
	if !strings.Contains(s.name, "@") {
		// the three paths share one name (also with earlier ops): whatever the
		// question can put into the cache must be there before the first
		// measured path runs, and it must not expire half-way through
		if warm != "raw" && warm != "msg" {
			warm = "raw"
		}
		shift = 0
	}
	if warm == "raw" || warm == "msg" {
		ws := s
		ws.cookie, ws.nsid, ws.ka, ws.pad, ws.ecs, ws.ver = "-", false, false, 0, false, 0
		ws.rd = true
		for p := 0; p < 3; p++ {
			pkt := ws.build(markers[p], nil, nil)
			wr := remoteFor(p, "tcp", false, 60000+n) // a different client: warm-up must not spend the measured client's tokens
			if warm == "raw" {
				rawSettled(pkt, wr)
			} else {
				m := new(dns.Msg)
				_ = m.Unpack(pkt)
				msgSettled(m, wr, "tcp")
			}
		}
	}
	gate.starved.Store(false)
	if shift > 0 && live.Cache != nil {
		cache.VerifC05Shift(live.Cache, time.Duration(shift)*time.Second)
	}
	if mix := a["mix"]; len(mix) == 3 && live.Cache != nil {
		// the target (TTL 60) has expired by now, the alias (TTL 200) has not:
		// re-admit the target with its second verdict by asking for it directly
		stubTargetAD = mix[2] == '1'
		ts := s
		ts.cookie, ts.nsid, ts.ka, ts.pad, ts.ecs, ts.ver, ts.rd = "-", false, false, 0, false, 0, true
		if i := strings.Index(ts.name, "."); i >= 0 {
			ts.name = "tgv" + ts.name[i:]
		}
		for p := 0; p < 3; p++ {
			rawSettled(ts.build(markers[p], nil, nil), remoteFor(p, "tcp", false, 63000+n))
		}
	}
	warmCalls := live.Stub.Calls.Load() - callsBefore

	// measured: rep identical questions per path, path order chosen by the op
	order := []int{0, 1, 2}
	switch a["ord"] {
	case "1":
		order = []int{1, 2, 0}
	case "2":
		order = []int{2, 0, 1}
	case "3":
		order = []int{2, 1, 0}
	}
	var replies [3][]reply
	var sent [3][]sentInfo
	var calls [3]int64
	inlineBlocked := false
	if ageMs := atoiD(a["age"], 0); ageMs > 0 {
		serveAge = time.Duration(ageMs) * time.Millisecond
	}
	slow := false
	for _, p := range order {
		c0 := live.Stub.Calls.Load()
		var prev []byte
		t0 := time.Now()
		for i := 0; i < rep; i++ {
			pkt := s.build(markers[p], prev, clientCookie)
			q0 := live.Stub.Calls.Load()
			r := serve(p, pkt, remotes[p], proto)
			if p == 2 && r.inline == "inline" && live.Stub.Calls.Load() != q0 && liveC.prefetch == 0 {
				// (with prefetch on, the refresh worker's own upstream call lands in this window)
				inlineBlocked = true
			}
			si := sentInfo{pkt: pkt, remote: remotes[p]}
			if s.edns && s.cookie != "-" {
				si.cookie = clientCookie
			}
			replies[p] = append(replies[p], r)
			sent[p] = append(sent[p], si)
			if c := replyCookie(r); c != nil {
				prev = c
			}
		}
		calls[p] = live.Stub.Calls.Load() - c0
		// the per-entry limiter refills in real time (erl tokens per second): the drop pattern of a
		// path is only meaningful while its serves fit well inside one refill interval
		if liveC.erl > 0 && time.Since(t0) > time.Second/time.Duration(4*liveC.erl) {
			slow = true
		}
	}

	serveAge = 0
	// follow-up observation: the plain question again, through ServeRaw, for each name
	var fcalls [3]int64
	var freplies [3]reply
	var fsent [3]sentInfo
	if a["follow"] != "0" {
		fs := s
		fs.cookie, fs.nsid, fs.ka, fs.pad, fs.ecs, fs.ver = "-", false, false, 0, false, 0
		fs.rd = true
		for p := 0; p < 3; p++ {
			pkt := fs.build(markers[p], nil, nil)
			fr := remoteFor(p, "tcp", false, 61000+n)
			c0 := live.Stub.Calls.Load()
			ws, handled, _ := rawSettled(pkt, fr)
			freplies[p] = fromWrites(ws, handled)
			fsent[p] = sentInfo{pkt: pkt, remote: fr}
			fcalls[p] = live.Stub.Calls.Load() - c0
		}
	}

	// ---- oracle
	pn := []string{"raw", "msg", "inline"}
	verdict := "ok"
	fail := func(sig, detail string) {
		if verdict == "ok" {
			verdict = "FAIL sig=" + sig + " " + detail
		}
	}
	for i := 0; i < rep; i++ {
		for _, pr := range [][2]int{{0, 1}, {0, 2}} {
			x, y := pr[0], pr[1]
			if d := diff(pn[x], pn[y], replies[x][i], replies[y][i], sent[x][i], sent[y][i]); d != "" {
				fail(sigOf(d), fmt.Sprintf("query#%d %s", i+1, d))
			}
		}
	}
	if inlineBlocked {
		// the inline pass runs on a transport reader: it may answer from the wire
		// ladder only; anything that resolves upstream belongs to the worker replay
		fail("c05/diff/inline-vs-replay", "an upstream resolution ran on the inline pass (no hand-off to a worker)")
	}
	{
		if calls[0] != calls[1] || calls[0] != calls[2] {
			fail("c05/diff/side-effect", fmt.Sprintf("upstream calls raw=%d msg=%d inline=%d", calls[0], calls[1], calls[2]))
		}
		if a["follow"] != "0" {
			if fcalls[0] != fcalls[1] || fcalls[0] != fcalls[2] {
				fail("c05/diff/side-effect", fmt.Sprintf("follow-up upstream calls raw=%d msg=%d inline=%d (what was cached differs)", fcalls[0], fcalls[1], fcalls[2]))
			}
			for _, pr := range [][2]int{{0, 1}, {0, 2}} {
				if d := diff("after-"+pn[pr[0]], "after-"+pn[pr[1]], freplies[pr[0]], freplies[pr[1]], fsent[pr[0]], fsent[pr[1]]); d != "" {
					fail("c05/diff/side-effect", "follow-up "+d)
				}
			}
		}
	}
	// a terminal on the inline pass must not be followed by a replay write; a hit the
	// wire ladder serves for ServeRaw is served inline too (same ladder).
	cls := func(rs []reply) string {
		var o []string
		for _, r := range rs {
			o = append(o, r.class)
		}
		return strings.Join(o, ",")
	}
	inl := func(rs []reply) string {
		var o []string
		for _, r := range rs {
			o = append(o, inl1(r))
		}
		return strings.Join(o, "")
	}
	tags := ""
	if warmCalls > 0 || a["cut"] == "1" || a["fail"] != "" || rep > 1 {
		tags = "nt"
	}
	// input distribution (shows up in the evidence's tag_distribution)
	var dist []string
	scn := strings.ToLower(s.name)
	if i := strings.IndexAny(scn, ".0123456789"); i > 0 {
		scn = scn[:i]
	}
	if !strings.Contains(s.name, "@") {
		scn = "shared-name"
	}
	dist = append(dist, "scn:"+scn, "proto:"+proto, "warm:"+warm)
	if len(replies[2]) > 0 {
		dist = append(dist, "first:"+replies[2][0].inline+":"+replies[2][0].class)
	}
	for _, kvp := range [][2]string{{"cut", a["cut"]}, {"fail", a["fail"]}, {"mix", a["mix"]}, {"nsec3", a["nsec3"]}, {"starve", a["starve"]}, {"age", a["age"]}} {
		if kvp[1] != "" {
			dist = append(dist, kvp[0]+":"+kvp[1])
		}
	}
	if hasRL {
		dist = append(dist, "cfg:ratelimit")
	}
	if liveC.prefetch > 0 {
		dist = append(dist, "cfg:prefetch")
	}
	if liveC.erl > 0 {
		dist = append(dist, "cfg:entry-limit")
	}
	if liveC.hosts {
		dist = append(dist, "cfg:hosts")
	}
	if liveC.empty {
		dist = append(dist, "cfg:as112")
	}
	if tags != "" {
		dist = append([]string{tags}, dist...)
	}
	tags = strings.Join(dist, ",")
	if slow && verdict != "ok" {
		// (a loaded machine: a token came back mid-op; the oracle's premise does not hold — not judged)
		verdict = "-"
		tags = strings.TrimPrefix(tags+",slow-limiter-op", ",")
	}
	impl := fmt.Sprintf("raw=%s msg=%s inline=%s/%s up=%d,%d,%d fu=%d,%d,%d", cls(replies[0]), cls(replies[1]), cls(replies[2]), inl(replies[2]),
		calls[0], calls[1], calls[2], fcalls[0], fcalls[1], fcalls[2])
	return vlib.Res{Impl: impl, Oracle: verdict, Tags: tags}
}

// execRaw: an arbitrary packet (hex, byte at offset mo is the marker).
func execRaw(a map[string]string) vlib.Res {
	if live == nil {
		return vlib.Res{Impl: "no-live"}
	}
	opSeq++
	n := opSeq
	pkt := vlib.UnHex(a["pkt"])
	mo := atoiD(a["mo"], -1)
	proto := a["proto"]
	if proto == "" {
		proto = "udp"
	}
	var pk [3][]byte
	var remotes [3]net.Addr
	for p := 0; p < 3; p++ {
		pk[p] = append([]byte(nil), pkt...)
		if mo >= 0 && mo < len(pkt) {
			pk[p][mo] = markers[p]
		}
		remotes[p] = remoteFor(p, proto, false, n)
	}
	if mo < 0 || mo >= len(pkt) {
		// the three paths share one name: serve the packet once beforehand so
		// that whatever it can put into the cache is there for all of them
		rawSettled(pkt, remoteFor(0, "tcp", false, 62000+n))
	}
	// warm-up with a plain query for the same question when it parses
	if a["warm"] == "raw" {
		for p := 0; p < 3; p++ {
			q := new(dns.Msg)
			if err := q.Unpack(pk[p]); err == nil && len(q.Question) == 1 {
				w := new(dns.Msg)
				w.SetQuestion(q.Question[0].Name, q.Question[0].Qtype)
				w.Question[0].Qclass = q.Question[0].Qclass
				w.CheckingDisabled = q.CheckingDisabled
				w.SetEdns0(1232, true)
				b, err := w.Pack()
				if err == nil {
					rawSettled(b, remoteFor(p, "tcp", false, 60000+n))
				}
			}
		}
	}
	var rs [3]reply
	var ss [3]sentInfo
	var calls [3]int64
	order := []int{0, 1, 2}
	if a["ord"] == "1" {
		order = []int{2, 1, 0}
	}
	for _, p := range order {
		c0 := live.Stub.Calls.Load()
		rs[p] = serve(p, pk[p], remotes[p], proto)
		ss[p] = sentInfo{pkt: pk[p], remote: remotes[p]}
		// client cookie, if the packet carries a well-formed one
		q := new(dns.Msg)
		if err := q.Unpack(pk[p]); err == nil {
			if opt := q.IsEdns0(); opt != nil {
				for _, o := range opt.Option {
					if c, ok := o.(*dns.EDNS0_COOKIE); ok {
						if b, _ := hex.DecodeString(c.Cookie); len(b) >= 8 {
							ss[p].cookie = b[:8]
						}
					}
				}
			}
		}
		calls[p] = live.Stub.Calls.Load() - c0
	}
	pn := []string{"raw", "msg", "inline"}
	verdict := "ok"
	for _, pr := range [][2]int{{0, 1}, {0, 2}} {
		if d := diff(pn[pr[0]], pn[pr[1]], rs[pr[0]], rs[pr[1]], ss[pr[0]], ss[pr[1]]); d != "" && verdict == "ok" {
			verdict = "FAIL sig=" + sigOf(d) + " " + d
		}
	}
	if (calls[0] != calls[1] || calls[0] != calls[2]) && verdict == "ok" {
		verdict = fmt.Sprintf("FAIL sig=c05/diff/side-effect upstream calls raw=%d msg=%d inline=%d", calls[0], calls[1], calls[2])
	}
	tags := ""
	if rs[0].m != nil {
		tags = "nt"
	}
	st := "f"
	if rs[0].strict {
		st = "t"
	}
	return vlib.Res{Impl: fmt.Sprintf("raw=%s strict=%s msg=%s inline=%s/%s up=%d,%d,%d", rs[0].class, st, rs[1].class, rs[2].class, inl1(rs[2]), calls[0], calls[1], calls[2]), Oracle: verdict, Tags: tags}
}

// execSeq: one client's history of (transport, client cookie, with/without the
// server half it last received for that cookie), run identically by three
// isomorphic clients through the three entries; compared step by step.
// steps=uA0,tB0,uB1 : u/t = UDP/TCP, A..D = client cookie, 0 = client half
// only, 1 = plus the server half last received for this cookie, s = plus a
// stale server half.
func execSeq(a map[string]string) vlib.Res {
	if live == nil {
		return vlib.Res{Impl: "no-live"}
	}
	opSeq++
	n := opSeq
	steps := strings.Split(a["steps"], ",")
	base := qspec{name: a["name"], qtype: uint16(atoiD(a["qt"], 1)), qclass: 1, id: uint16(atoiD(a["id"], 99)), rd: true, edns: true, usz: 1232,
		do: boolS(a["do"])}
	if liveC.erl > 0 {
		cache.VerifC05ResetEntryLimiters()
	}
	order := []int{0, 1, 2}
	switch a["ord"] {
	case "1":
		order = []int{1, 2, 0}
	case "2":
		order = []int{2, 0, 1}
	}
	var replies [3][]reply
	var sent [3][]sentInfo
	for _, p := range order {
		issued := map[byte][]byte{}
		for _, st := range steps {
			if len(st) != 3 {
				return vlib.Res{Impl: "bad-op"}
			}
			proto := "udp"
			if st[0] == 't' {
				proto = "tcp"
			}
			cc := []byte{0xc0, 0x05, byte(n >> 8), byte(n), st[1], st[1], 7, 7}
			s := base
			s.cookie = "c"
			var prev []byte
			switch st[2] {
			case '1':
				if full := issued[st[1]]; len(full) > 8 {
					s.cookie, prev = "e", full
				}
			case 's':
				s.cookie = "s"
			}
			pkt := s.build(markers[p], prev, cc)
			remote := remoteFor(p, proto, boolS(a["v6"]), n)
			r := serve(p, pkt, remote, proto)
			replies[p] = append(replies[p], r)
			sent[p] = append(sent[p], sentInfo{pkt: pkt, remote: remote, cookie: cc})
			if c := replyCookie(r); len(c) > 8 && string(c[:8]) == string(cc) {
				issued[st[1]] = c
			}
		}
	}
	pn := []string{"raw", "msg", "inline"}
	verdict := "ok"
	for i := range steps {
		for _, pr := range [][2]int{{0, 1}, {0, 2}} {
			if d := diff(pn[pr[0]], pn[pr[1]], replies[pr[0]][i], replies[pr[1]][i], sent[pr[0]][i], sent[pr[1]][i]); d != "" && verdict == "ok" {
				verdict = fmt.Sprintf("FAIL sig=%s step#%d(%s) %s", sigOf(d), i+1, steps[i], d)
			}
		}
	}
	cls := func(rs []reply) string {
		var o []string
		for _, r := range rs {
			o = append(o, r.class)
		}
		return strings.Join(o, ",")
	}
	return vlib.Res{Impl: fmt.Sprintf("raw=%s msg=%s inline=%s", cls(replies[0]), cls(replies[1]), cls(replies[2])), Oracle: verdict, Tags: "nt"}
}

// ---------------------------------------------------------------- RFC 8198 state

// cryptoGate is the shared DNSSEC crypto limiter of the instance: NSEC3
// hashing of the aggressive-denial rung draws on it; starved, the rung misses
// although a covering proof is cached.
type cryptoGate struct{ starved atomic.Bool }

func (g *cryptoGate) TryAcquire() (func(), bool) {
	if g.starved.Load() {
		return nil, false
	}
	return func() {}, true
}

var gate = &cryptoGate{}

var b32hex = base32.HexEncoding.WithPadding(base32.NoPadding)

func adjacentHash(encoded string, delta int) string {
	v, err := b32hex.DecodeString(strings.ToUpper(encoded))
	if err != nil || len(v) != 20 {
		panic("nsec3 hash")
	}
	for i := len(v) - 1; i >= 0; i-- {
		if delta > 0 {
			v[i]++
			if v[i] != 0 {
				break
			}
		} else {
			prev := v[i]
			v[i]--
			if prev != 0 {
				break
			}
		}
	}
	return b32hex.EncodeToString(v)
}

// nsec3Proof builds the validated NXDOMAIN proof (RFC 5155 closest-encloser proof,
// closest encloser = zone apex) a resolver would hand the cache for qname in zone.
func nsec3Proof(qname, zone string) *dns.Msg {
	qname, zone = strings.ToLower(qname), strings.ToLower(zone)
	labels := dns.SplitDomainName(qname)
	zl := dns.CountLabel(zone)
	nextCloser := strings.Join(labels[len(labels)-zl-1:], ".") + "."
	exp := uint32(time.Now().Add(2 * time.Hour).Unix())
	sigFor := func(owner string, covered uint16) dns.RR {
		return &dns.RRSIG{Hdr: dns.RR_Header{Name: owner, Rrtype: dns.TypeRRSIG, Class: dns.ClassINET, Ttl: 300}, TypeCovered: covered,
			Algorithm: dns.RSASHA256, Labels: uint8(dns.CountLabel(owner)), OrigTtl: 300, Expiration: exp, Inception: exp - 10800, KeyTag: 1,
			SignerName: zone, Signature: "AA=="}
	}
	rec := func(owner, next string, bitmap []uint16) *dns.NSEC3 {
		return &dns.NSEC3{Hdr: dns.RR_Header{Name: under(owner, zone), Rrtype: dns.TypeNSEC3, Class: dns.ClassINET, Ttl: 300}, Hash: dns.SHA1,
			HashLength: 20, NextDomain: next, TypeBitMap: bitmap}
	}
	ce := dns.HashName(zone, dns.SHA1, 0, "")
	nc := dns.HashName(nextCloser, dns.SHA1, 0, "")
	wc := dns.HashName(under("*", zone), dns.SHA1, 0, "")
	m := new(dns.Msg)
	m.Response, m.RecursionAvailable, m.AuthenticatedData = true, true, true
	m.Rcode = dns.RcodeNameError
	m.Question = []dns.Question{{Name: qname, Qtype: dns.TypeA, Qclass: dns.ClassINET}}
	soa := &dns.SOA{Hdr: dns.RR_Header{Name: zone, Rrtype: dns.TypeSOA, Class: dns.ClassINET, Ttl: 300}, Ns: under("ns1", zone), Mbox: under("hostmaster", zone),
		Serial: 1, Refresh: 3600, Retry: 600, Expire: 86400, Minttl: 300}
	m.Ns = append(m.Ns, soa, sigFor(zone, dns.TypeSOA))
	for _, r := range []*dns.NSEC3{
		rec(ce, adjacentHash(ce, 1), []uint16{dns.TypeNS, dns.TypeSOA, dns.TypeRRSIG, dns.TypeNSEC3}),
		rec(adjacentHash(nc, -1), adjacentHash(nc, 1), []uint16{dns.TypeRRSIG, dns.TypeNSEC3}),
		rec(adjacentHash(wc, -1), adjacentHash(wc, 1), []uint16{dns.TypeRRSIG, dns.TypeNSEC3}),
	} {
		m.Ns = append(m.Ns, r, sigFor(r.Hdr.Name, dns.TypeNSEC3))
	}
	return m
}

// seedDenialAt installs the proofs in the zone `up` labels above each name's first label
// kept... depth 0 = the root zone, which every name's suffix walk must reach.
func seedDenialAt(names [3]string, zoneLabels int) bool {
	ok := true
	for p := 0; p < 3; p++ {
		labels := dns.SplitDomainName(names[p])
		zone := "."
		if zoneLabels > 0 && zoneLabels < len(labels) {
			zone = strings.ToLower(strings.Join(labels[len(labels)-zoneLabels:], ".") + ".")
		}
		ok = cache.VerifC05RecordDenialProof(live.Cache, nsec3Proof(names[p], zone), zone, true) && ok
	}
	return ok
}

// seedDenial installs an NSEC3 proof covering each of the three names.
func seedDenial(names [3]string) bool {
	ok := true
	for p := 0; p < 3; p++ {
		zone := zoneOf(names[p])
		ok = cache.VerifC05RecordDenialProof(live.Cache, nsec3Proof(names[p], zone), zone, true) && ok
	}
	return ok
}
