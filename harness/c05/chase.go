//go:build verif

package main

// `ch run`: the cache-contained CNAME chase on the wire (Cache.collectWireChase
// + composeWireChase) over a scripted set of hop entries admitted straight
// into a real cache, compared with the Lean model of the walk.

import (
	"fmt"
	"net"
	"strings"
	"time"

	"github.com/miekg/dns"
	"github.com/semihalev/sdns/config"
	"github.com/semihalev/sdns/internal/verif/vlib"
	"github.com/semihalev/sdns/middleware"
	"github.com/semihalev/sdns/middleware/cache"
)

var chSeq int

// hop spec (position = name id, id 0 = the question name):
//
//	c:<ad>:<ttl>:<target id>   alias to name <target id>
//	a:<ad>:<ttl>:0             terminal record of the question's type
//	n / e / s                  NXDOMAIN / NODATA / answer with authority baggage
//	x                          not cached
func execCH(a map[string]string) vlib.Res {
	chSeq++
	c := cache.New(&config.Config{CacheSize: 1024, Expire: 600})
	defer c.Stop()
	qt := uint16(vlib.Atoi(a["qt"]))
	cd := a["cd"] == "1"
	name := func(id int) string {
		if id == 0 {
			return fmt.Sprintf("q.chase%d.test.", chSeq)
		}
		return fmt.Sprintf("h%d.chase%d.test.", id, chSeq)
	}
	hops := strings.Split(a["hops"], ",")
	var admitted []dns.RR // terminal records as handed to the cache
	for id, h := range hops {
		f := strings.Split(h, ":")
		if f[0] == "x" {
			continue
		}
		ad, ttl, tgt := f[1] == "1", uint32(vlib.Atoi(f[2])), vlib.Atoi(f[3])
		m := new(dns.Msg)
		m.Response, m.RecursionAvailable, m.RecursionDesired = true, true, true
		m.AuthenticatedData = ad
		m.CheckingDisabled = cd
		m.Question = []dns.Question{{Name: name(id), Qtype: qt, Qclass: dns.ClassINET}}
		hdr := func(t uint16) dns.RR_Header {
			return dns.RR_Header{Name: name(id), Rrtype: t, Class: dns.ClassINET, Ttl: ttl}
		}
		terminal := func() dns.RR {
			// RDATA names share suffixes with the owner and with each other: the packer compresses them
			switch qt {
			case dns.TypeMX:
				return &dns.MX{Hdr: hdr(dns.TypeMX), Preference: 10, Mx: fmt.Sprintf("mail.chase%d.test.", chSeq)}
			case dns.TypePTR:
				return &dns.PTR{Hdr: hdr(dns.TypePTR), Ptr: fmt.Sprintf("alpha.hosts.chase%d.test.", chSeq)}
			case dns.TypeNS:
				return &dns.NS{Hdr: hdr(dns.TypeNS), Ns: fmt.Sprintf("ns1.chase%d.test.", chSeq)}
			case dns.TypeSRV:
				return &dns.SRV{Hdr: hdr(dns.TypeSRV), Priority: 1, Weight: 1, Port: 53, Target: fmt.Sprintf("srv.chase%d.test.", chSeq)}
			case dns.TypeAAAA:
				return &dns.AAAA{Hdr: hdr(dns.TypeAAAA), AAAA: net.ParseIP("2001:db8::1")}
			case dns.TypeTXT:
				return &dns.TXT{Hdr: hdr(dns.TypeTXT), Txt: []string{"chase", "text"}}
			case dns.TypeDS:
				return &dns.DS{Hdr: hdr(dns.TypeDS), KeyTag: 1, Algorithm: 8, DigestType: 2, Digest: "00112233445566778899aabbccddeeff00112233445566778899aabbccddeeff"}
			}
			return &dns.A{Hdr: hdr(dns.TypeA), A: net.IPv4(192, 0, 2, byte(id+1))}
		}
		terminal2 := func() dns.RR { // a second record of the set, sharing the RDATA suffix
			if qt == dns.TypePTR {
				return &dns.PTR{Hdr: hdr(dns.TypePTR), Ptr: fmt.Sprintf("beta.hosts.chase%d.test.", chSeq)}
			}
			return nil
		}
		soa := &dns.SOA{Hdr: dns.RR_Header{Name: "test.", Rrtype: dns.TypeSOA, Class: dns.ClassINET, Ttl: ttl}, Ns: "ns.test.", Mbox: "h.test.", Serial: 1, Refresh: 2, Retry: 3, Expire: 4, Minttl: ttl}
		switch f[0] {
		case "c":
			m.Answer = []dns.RR{&dns.CNAME{Hdr: hdr(dns.TypeCNAME), Target: name(tgt)}}
		case "a":
			m.Answer = []dns.RR{terminal()}
			if t2 := terminal2(); t2 != nil {
				m.Answer = append(m.Answer, t2)
			}
			admitted = append(admitted, m.Answer...)
		case "n":
			m.Rcode = dns.RcodeNameError
			m.Ns = []dns.RR{soa}
		case "e":
			m.Ns = []dns.RR{soa}
		case "s":
			m.Answer = []dns.RR{terminal()}
			m.Ns = []dns.RR{&dns.NS{Hdr: dns.RR_Header{Name: "test.", Rrtype: dns.TypeNS, Class: dns.ClassINET, Ttl: ttl}, Ns: "ns.test."}}
		}
		cache.VerifC05Admit(c, m)
	}
	cache.VerifC05Shift(c, time.Duration(vlib.Atoi(a["el"]))*time.Millisecond)
	q := new(dns.Msg)
	q.SetQuestion(fmt.Sprintf("Q.Chase%d.TEST.", chSeq), qt)
	q.Id = 321
	q.CheckingDisabled = cd
	pkt, _ := q.Pack()
	wreq := middleware.VerifC05WireRequest(pkt)
	body, info, n, found, ok := cache.VerifC05Chase(c, wreq, false)
	if !found {
		if hops[0] == "x" {
			return vlib.Res{Impl: "noentry", Oracle: "ok"}
		}
		// an expired alias is no exact hit: nothing to chase from
		return vlib.Res{Impl: "decline", Oracle: "ok"}
	}
	if !ok {
		return vlib.Res{Impl: "decline", Oracle: "ok", Tags: "nt"}
	}
	m := new(dns.Msg)
	if err := m.Unpack(body); err != nil {
		return vlib.Res{Impl: "garbled", Oracle: "FAIL sig=c05/chase/body-undecodable " + err.Error()}
	}
	var ttls []string
	for _, r := range m.Answer {
		ttls = append(ttls, fmt.Sprint(r.Header().Ttl))
	}
	nAlias := 0
	for _, r := range m.Answer {
		if r.Header().Rrtype == dns.TypeCNAME {
			nAlias++
		}
	}
	if len(ttls) > nAlias+1 {
		ttls = ttls[:nAlias+1] // one TTL per hop (a terminal RRset shares its hop's)
	}
	impl := fmt.Sprintf("ok hops=%d an=%d ad=%s iad=%s ttls=%s", n, nAlias+1, vlib.B(m.AuthenticatedData), vlib.B(info.AuthenticatedData), strings.Join(ttls, ","))
	// oracle (independent of the model): what a resolver may say about a chain —
	// authenticated only if every hop it used was, never to a CD client; the body
	// and the facts handed to the writer chain agree; the client's question is echoed;
	// every owner/target link of the answer section is connected
	or := "ok"
	allAD := true
	id := 0
	for i := 0; i < n; i++ {
		f := strings.Split(hops[id], ":")
		allAD = allAD && f[1] == "1"
		if f[0] == "c" {
			id = vlib.Atoi(f[3])
		}
	}
	switch {
	case m.AuthenticatedData != (allAD && !cd):
		or = fmt.Sprintf("FAIL sig=c05/chase/ad-not-conjunction-of-hops ad=%v hops-all-ad=%v cd=%v", m.AuthenticatedData, allAD, cd)
	case m.AuthenticatedData != info.AuthenticatedData:
		or = "FAIL sig=c05/chase/wireinfo-ad-differs-from-body"
	case len(m.Question) != 1 || m.Question[0].Name != q.Question[0].Name:
		or = "FAIL sig=c05/chase/question-not-echoed"
	case m.Id != 321 || !m.Response || m.Authoritative || m.Rcode != 0:
		or = "FAIL sig=c05/chase/header"
	}
	if or == "ok" {
		// the terminal records' RDATA is what was admitted (re-encoding must not change a name)
		rdata := func(r dns.RR) string { return strings.TrimPrefix(r.String(), r.Header().String()) }
		for _, r := range m.Answer {
			if r.Header().Rrtype == dns.TypeCNAME {
				continue
			}
			found := false
			for _, x := range admitted {
				if x.Header().Rrtype == r.Header().Rrtype && rdata(x) == rdata(r) {
					found = true
				}
			}
			if !found {
				or = "FAIL sig=c05/chase/rdata-differs-from-admitted " + rdata(r)
			}
		}
	}
	if or == "ok" {
		want := strings.ToLower(q.Question[0].Name)
		for _, r := range m.Answer {
			if strings.ToLower(r.Header().Name) != want {
				or = "FAIL sig=c05/chase/broken-link at " + r.Header().Name
				break
			}
			if cn, isC := r.(*dns.CNAME); isC {
				want = strings.ToLower(cn.Target)
			}
		}
	}
	return vlib.Res{Impl: impl, Oracle: or, Tags: "nt"}
}
