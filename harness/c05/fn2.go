//go:build verif

package main

// Function-level ops of the handler branches that exist twice (wire-born /
// message-born request): edns (`ed`), ratelimit (`rl`), as112 (`as`). Each op
// drives the REAL handler through a two-handler chain [handler, probe] once
// with a wire-born request and once with the decoded form of the same
// packet, prints both outcomes (compared with the Lean model) and the oracle
// demands that they are equal.

import (
	"context"
	"encoding/hex"
	"fmt"
	"net"
	"os"
	"path/filepath"
	"strings"
	"time"

	"github.com/miekg/dns"
	"github.com/semihalev/sdns/config"
	"github.com/semihalev/sdns/internal/dnsutil"
	"github.com/semihalev/sdns/internal/mock"
	"github.com/semihalev/sdns/internal/verif/vlib"
	"github.com/semihalev/sdns/middleware"
	"github.com/semihalev/sdns/middleware/as112"
	"github.com/semihalev/sdns/middleware/cache"
	"github.com/semihalev/sdns/middleware/edns"
	"github.com/semihalev/sdns/middleware/hostsfile"
	"github.com/semihalev/sdns/internal/verif/srvh"
	"github.com/semihalev/sdns/middleware/ratelimit"
	"github.com/semihalev/sdns/middleware/reflex"
	"github.com/semihalev/sdns/server"
)

// probe is the handler behind the one under test: it records that it was
// reached and what the chain's writer looks like there, answers, and stops.
type probe struct {
	reached bool
	wf      edns.VerifC05WF
	hasWF   bool
}

func (p *probe) Name() string { return "probe" }
func (p *probe) ServeDNS(ctx context.Context, ch *middleware.Chain) {
	p.reached = true
	p.wf, p.hasWF = edns.VerifC05WriterFacts(ch.Writer)
	ch.Cancel()
}

// runBoth serves pkt through [h, probe]: wire-born (nil result when ParseWire
// refuses) and message-born (nil when the library cannot decode).
type outcome struct {
	pr *probe
	w  *mock.Writer
}

func runWire(h middleware.Handler, pkt []byte, proto, addr string, replay bool) *outcome {
	wreq := middleware.VerifC05WireRequest(pkt)
	if wreq == nil {
		return nil
	}
	pr := &probe{}
	w := mock.NewWriter(proto, addr)
	ch := middleware.NewChain([]middleware.Handler{h, pr})
	ch.ResetWire(w, wreq)
	if replay {
		ch.SetReplay()
	}
	ch.Next(context.Background())
	ch.Finish()
	return &outcome{pr, w}
}

func runMsg(h middleware.Handler, pkt []byte, proto, addr string) *outcome {
	m := new(dns.Msg)
	if err := m.Unpack(pkt); err != nil || len(m.Question) != 1 {
		return nil
	}
	pr := &probe{}
	w := mock.NewWriter(proto, addr)
	ch := middleware.NewChain([]middleware.Handler{h, pr})
	ch.Reset(w, m)
	ch.Next(context.Background())
	return &outcome{pr, w}
}

// ---------------------------------------------------------------- ed

var edH = edns.New(&config.Config{CookieSecret: "s3cr3t", NSID: "ns1"})

func edOut(o *outcome) string {
	switch {
	case o == nil:
		return "none"
	case o.pr.reached && o.pr.hasWF:
		f := o.pr.wf
		ck := f.Cookie
		if ck == "" {
			ck = "-"
		}
		return fmt.Sprintf("next/size=%d/do=%s/ne=%s/nsid=%s/ka=%s/noad=%s/rus=%d/ck=%s", f.Size, vlib.B(f.DO), vlib.B(f.NoEDNS), vlib.B(f.NSID),
			vlib.B(f.Keepalive), vlib.B(f.NoAD), f.RespUDPSize, ck)
	case o.pr.reached:
		return "next/unwrapped"
	case o.w.Msg() != nil:
		return fmt.Sprintf("reply/rcode=%d", o.w.Msg().Rcode)
	}
	return "drop"
}

func execED(a map[string]string) vlib.Res {
	pkt := vlib.UnHex(a["pkt"])
	proto := a["proto"]
	ow := runWire(edH, pkt, proto, "203.0.113.9:4242", false)
	om := runMsg(edH, pkt, proto, "203.0.113.9:4242")
	ws, ms := edOut(ow), edOut(om)
	or := "ok"
	if ow == nil {
		ms = "skip" // the model decodes strict-path packets only
	}
	if ow != nil && om != nil && ws != ms {
		or = fmt.Sprintf("FAIL sig=c05/edns/branches-differ wire=%s msg=%s", ws, ms)
	}
	tags := ""
	if ow != nil {
		tags = "nt"
	}
	return vlib.Res{Impl: "w=" + ws + " m=" + ms, Oracle: or, Tags: tags}
}

// ---------------------------------------------------------------- rl

var (
	rlWire, rlMsg *ratelimit.RateLimit
	rlN           int
)

const rlSecret = "rl-secret"

func rlOut(o *outcome) string {
	switch {
	case o == nil:
		return "none"
	case o.pr.reached:
		return "next"
	case o.w.Msg() != nil:
		return fmt.Sprintf("reply%d", o.w.Msg().Rcode)
	}
	return "drop"
}

// rlPacket: a plain A query with the scripted cookie: "-" none, "<cid>:<n|g|b>"
// = client cookie number cid with no / the good / a bad server half.
func rlPacket(ck, addr string, ver uint8) []byte {
	m := new(dns.Msg)
	m.SetQuestion("rl.example.test.", dns.TypeA)
	m.Id = 7
	o := new(dns.OPT)
	o.Hdr.Name, o.Hdr.Rrtype = ".", dns.TypeOPT
	o.SetUDPSize(1232)
	o.SetVersion(ver)
	if ck != "-" {
		cid, half, _ := strings.Cut(ck, ":")
		client := fmt.Sprintf("c00500%02x00000000", vlib.Atoi(cid))
		full := client
		host, _, _ := net.SplitHostPort(addr)
		switch half {
		case "g":
			full = dnsutil.GenerateServerCookie(rlSecret, host, client)
		case "b":
			full = client + strings.Repeat("00", 32)
		}
		o.Option = append(o.Option, &dns.EDNS0_COOKIE{Code: dns.EDNS0COOKIE, Cookie: full})
	}
	m.Extra = append(m.Extra, o)
	b, err := m.Pack()
	if err != nil {
		panic(err)
	}
	return b
}

func execRL(f []string) vlib.Res {
	a := kv(f[2:])
	switch f[1] {
	case "new":
		rlN++
		cfg := &config.Config{ClientRateLimit: vlib.Atoi(a["rate"]), CookieSecret: rlSecret}
		rlWire, rlMsg = ratelimit.New(cfg), ratelimit.New(cfg)
		return vlib.Res{Impl: "ok", Oracle: "-"}
	case "step":
		if rlWire == nil {
			return vlib.Res{Impl: "no-rl"}
		}
		// one client per case (limiter stores are per instance, the address only has to be non-loopback)
		addr := fmt.Sprintf("198.51.%d.%d:5353", (rlN>>8)&255, rlN&255)
		if a["lo"] == "1" {
			addr = "127.0.0.1:5353"
		}
		pkt := rlPacket(a["ck"], addr, uint8(atoiD(a["ver"], 0)))
		replay := a["replay"] == "1"
		ow := runWire(rlWire, pkt, a["proto"], addr, replay)
		ms := "-"
		if !replay {
			ms = rlOut(runMsg(rlMsg, pkt, a["proto"], addr))
		}
		ws := rlOut(ow)
		or := "ok"
		if !replay && ws != ms {
			or = fmt.Sprintf("FAIL sig=c05/ratelimit/branches-differ wire=%s msg=%s", ws, ms)
		}
		if replay && ws != "next" {
			or = "FAIL sig=c05/ratelimit/replay-not-passed-through got=" + ws
		}
		return vlib.Res{Impl: "w=" + ws + " m=" + ms, Oracle: or, Tags: "nt"}
	}
	return vlib.Res{Impl: "bad-op"}
}

// ---------------------------------------------------------------- as

var asH *as112.AS112

func asOut(o *outcome) string {
	switch {
	case o == nil:
		return "none"
	case o.pr.reached:
		return "next"
	case o.w.Msg() != nil:
		m := o.w.Msg()
		types := func(rrs []dns.RR) string {
			var t []string
			for _, r := range rrs {
				t = append(t, fmt.Sprint(r.Header().Rrtype))
			}
			if len(t) == 0 {
				return "-"
			}
			return strings.Join(t, "+")
		}
		zone := "-"
		for _, r := range append(append([]dns.RR{}, m.Answer...), m.Ns...) {
			switch v := r.(type) {
			case *dns.SOA:
				zone = v.Ns
			case *dns.NS:
				zone = v.Ns
			}
		}
		return fmt.Sprintf("reply/rc=%d/aa=%s/an=%s/ns=%s/zone=%s", m.Rcode, vlib.B(m.Authoritative), types(m.Answer), types(m.Ns), zone)
	}
	return "drop"
}

func execAS(f []string) vlib.Res {
	a := kv(f[2:])
	switch f[1] {
	case "new":
		var zones []string
		if a["zones"] != "default" {
			zones = strings.Split(a["zones"], ",")
		}
		asH = as112.New(&config.Config{EmptyZones: zones})
		return vlib.Res{Impl: "ok", Oracle: "-"}
	case "run":
		if asH == nil {
			return vlib.Res{Impl: "no-as"}
		}
		m := new(dns.Msg)
		m.SetQuestion(a["name"], uint16(vlib.Atoi(a["qt"])))
		m.Id = 9
		pkt, err := m.Pack()
		if err != nil {
			return vlib.Res{Impl: "unpackable"}
		}
		ws, ms := asOut(runWire(asH, pkt, "udp", "203.0.113.9:4242", false)), asOut(runMsg(asH, pkt, "udp", "203.0.113.9:4242"))
		or := "ok"
		if ws != ms {
			or = fmt.Sprintf("FAIL sig=c05/as112/branches-differ wire=%s msg=%s", ws, ms)
		}
		return vlib.Res{Impl: "w=" + ws + " m=" + ms, Oracle: or, Tags: "nt"}
	}
	return vlib.Res{Impl: "bad-op"}
}

var _ = hex.EncodeToString
var _ = time.Now

// ---------------------------------------------------------------- sx

// `sx walk name=<presentation>`: the ancestor walks behind the cut / failure / witness
// lookups, byte side and decoded side, on the same name.
func execSX(a map[string]string) vlib.Res {
	name := a["name"]
	wn := make([]byte, 300)
	end, err := dns.PackDomainName(name, wn, 0, nil, false)
	if err != nil {
		return vlib.Res{Impl: "unpackable"}
	}
	ww, fz, dz := cache.VerifC05SuffixWalks(wn[:end], name)
	pres := func(b []byte) string {
		s, _, err := dns.UnpackDomainName(b, 0)
		if err != nil {
			return "?" + vlib.Hex(b)
		}
		return strings.ToLower(s)
	}
	var ws []string
	for _, b := range ww {
		ws = append(ws, pres(b))
	}
	impl := fmt.Sprintf("w=%s f=%s d=%s", strings.Join(ws, "|"), strings.Join(fz, "|"), strings.Join(dz, "|"))
	// oracle: every ancestor zone, nearest first, the root last — on all three walks
	var want []string
	labels := dns.SplitDomainName(strings.ToLower(name))
	for i := range labels {
		want = append(want, strings.Join(labels[i:], ".")+".")
	}
	want = append(want, ".")
	w := strings.Join(want, "|")
	or := "ok"
	switch {
	case strings.Join(ws, "|") != w:
		or = "FAIL sig=c05/suffix-walk/wire-misses-an-ancestor want=" + w
	case strings.Join(fz, "|") != w || strings.Join(dz, "|") != w:
		or = "FAIL sig=c05/suffix-walk/decoded-walks-differ want=" + w
	}
	return vlib.Res{Impl: impl, Oracle: or, Tags: "nt"}
}

// ---------------------------------------------------------------- rx

// `rx facts pkt=<hex>`: what reflex scores a request with — wire-born vs message-born.
func execRX(a map[string]string) vlib.Res {
	pkt := vlib.UnHex(a["pkt"])
	ws, ms := "none", "skip"
	or := "ok"
	if wreq := middleware.VerifC05WireRequest(pkt); wreq != nil {
		qt, size, ok := reflex.VerifC05RequestFacts(wreq)
		ws = fmt.Sprintf("%d/%d/%s", qt, size, vlib.B(ok))
		m := new(dns.Msg)
		if err := m.Unpack(pkt); err == nil && len(m.Question) == 1 {
			qt2, size2, ok2 := reflex.VerifC05RequestFacts(middleware.NewRequest(m))
			ms = fmt.Sprintf("%d/%d/%s", qt2, size2, vlib.B(ok2))
			// oracle: a request is as large as the packet the client sent, whoever measures it
			if qt != qt2 || size != size2 || size != len(pkt) {
				or = fmt.Sprintf("FAIL sig=c05/reflex/request-facts-differ wire=%s msg=%s packet=%d", ws, ms, len(pkt))
			}
		}
	}
	return vlib.Res{Impl: "w=" + ws + " m=" + ms, Oracle: or, Tags: "nt"}
}

// ---------------------------------------------------------------- sock

// `sock probe pkt=<hex>`: the packet over the REAL UDP and TCP sockets of a listening
// instance (the UDP reader's inline pass included, where the platform arms it). Header-level
// verdicts (ignore / NOTIMP / FORMERR) are the engines' own: both must answer what
// acceptHeader says.
func sockExchange(network string, pkt []byte, wait time.Duration) string {
	c, err := net.DialTimeout(network, live.Addr, time.Second)
	if err != nil {
		return "dial-error"
	}
	defer c.Close()
	out := pkt
	if network == "tcp" {
		out = append([]byte{byte(len(pkt) >> 8), byte(len(pkt))}, pkt...)
	}
	if _, err := c.Write(out); err != nil {
		return "write-error"
	}
	_ = c.SetReadDeadline(time.Now().Add(wait))
	buf := make([]byte, 65535+2)
	n, err := c.Read(buf)
	if err != nil || n == 0 {
		return "silent"
	}
	b := buf[:n]
	if network == "tcp" {
		if n < 2 {
			return "short"
		}
		b = b[2:]
	}
	if len(b) < 12 {
		return "short"
	}
	return fmt.Sprintf("rcode=%d/qr=%d/op=%d", b[3]&0xF, b[2]>>7, (b[2]>>3)&0xF)
}

func execSock(f []string) vlib.Res {
	a := kv(f[2:])
	switch f[1] {
	case "new":
		stopLive()
		liveC = liveCfg{handlers: []string{"recovery", "edns", "cache"}, rfc8198: true, rfc9520: true}
		hasRL, hasEDNS = false, true
		live = srvh.Start(srvh.Opts{Handlers: liveC.handlers, Listen: true})
		live.Stub.Set(stubRespond)
		opSeq = 0
		slabs = [4]*server.VerifJob{}
		return vlib.Res{Impl: "ok", Oracle: "-"}
	case "probe":
		if live == nil {
			return vlib.Res{Impl: "no-live"}
		}
		pkt := vlib.UnHex(a["pkt"])
		verdict := server.VerifC05AcceptHeader(pkt)
		wait := 1500 * time.Millisecond
		if verdict == 1 {
			wait = 120 * time.Millisecond // nothing is expected back
		}
		u := sockExchange("udp", pkt, wait)
		t := sockExchange("tcp", pkt, wait)
		if verdict == 0 {
			// an accepted header goes to the pipeline: what comes back is the other ops' business
			norm := func(x string) string {
				if strings.HasPrefix(x, "rcode=") {
					return "served"
				}
				return x
			}
			u, t = norm(u), norm(t)
		}
		want := map[int]string{1: "silent", 2: "rcode=4", 3: "rcode=1"}[verdict]
		or := "ok"
		if verdict != 0 {
			for _, x := range []struct{ n, got string }{{"udp", u}, {"tcp", t}} {
				if !strings.HasPrefix(x.got, want) {
					or = fmt.Sprintf("FAIL sig=c05/engine/header-verdict-%s want=%s got=%s", x.n, want, x.got)
					break
				}
			}
		}
		if or == "ok" && u != t {
			or = fmt.Sprintf("FAIL sig=c05/engine/udp-tcp-differ udp=%s tcp=%s", u, t)
		}
		return vlib.Res{Impl: fmt.Sprintf("verdict=%d udp=%s tcp=%s", verdict, u, t), Oracle: or, Tags: "nt"}
	}
	return vlib.Res{Impl: "bad-op"}
}

// ---------------------------------------------------------------- hs

// `hs run name= qt=`: the REAL Hostsfile.ServeDNS behind a wire-born and a message-born
// request over one fixed hosts database (see hsContent; the Lean driver holds the same table).
const hsContent = `192.0.2.10 host1.zt
2001:db8::10 host1.zt
192.0.2.11 Host2.zt
192.0.2.12 *.wild.zt
2001:db8::12 *.wild6.zt
192.0.2.14 canon.zt alias.zt
`

var (
	hsH   *hostsfile.Hostsfile
	hsDir string
)

func hsOut(o *outcome, sent string) string {
	switch {
	case o == nil:
		return "none"
	case o.pr.reached:
		return "next"
	case o.w.Msg() != nil:
		m := o.w.Msg()
		var t []string
		for _, r := range m.Answer {
			t = append(t, fmt.Sprint(r.Header().Rrtype))
		}
		an := "-"
		if len(t) > 0 {
			an = strings.Join(t, "+")
		}
		echo := "t"
		if len(m.Question) != 1 || m.Question[0].Name != sent {
			echo = "f"
		}
		return fmt.Sprintf("reply/rc=%d/aa=%s/an=%s/echo=%s", m.Rcode, vlib.B(m.Authoritative), an, echo)
	}
	return "drop"
}

func execHS(f []string) vlib.Res {
	a := kv(f[2:])
	switch f[1] {
	case "new":
		base := os.Getenv("VERIF_DIR")
		if base == "" {
			base = "/verif"
		}
		hsDir = filepath.Join(base, "build", "tmp-c05", fmt.Sprintf("hs-%d", os.Getpid()))
		_ = os.MkdirAll(hsDir, 0o750)
		p := filepath.Join(hsDir, "hosts")
		_ = os.WriteFile(p, []byte(hsContent), 0o640)
		hsH = hostsfile.New(&config.Config{HostsFile: p})
		if hsH == nil {
			return vlib.Res{Impl: "no-hosts", Oracle: "FAIL sig=c05/harness/hostsfile-not-loaded"}
		}
		return vlib.Res{Impl: "ok", Oracle: "-"}
	case "run":
		if hsH == nil {
			return vlib.Res{Impl: "no-hs"}
		}
		m := new(dns.Msg)
		m.SetQuestion(a["name"], uint16(vlib.Atoi(a["qt"])))
		m.Id = 11
		pkt, err := m.Pack()
		if err != nil {
			return vlib.Res{Impl: "unpackable"}
		}
		ws, ms := hsOut(runWire(hsH, pkt, "udp", "203.0.113.9:4242", false), a["name"]), hsOut(runMsg(hsH, pkt, "udp", "203.0.113.9:4242"), a["name"])
		or := "ok"
		if ws != ms {
			or = fmt.Sprintf("FAIL sig=c05/hostsfile/branches-differ wire=%s msg=%s", ws, ms)
		} else if strings.HasSuffix(ws, "echo=f") {
			or = "FAIL sig=c05/hostsfile/question-not-echoed"
		}
		return vlib.Res{Impl: "w=" + ws + " m=" + ms, Oracle: or, Tags: "nt"}
	}
	return vlib.Res{Impl: "bad-op"}
}

func hsCleanup() {
	if hsDir != "" {
		_ = os.RemoveAll(hsDir)
	}
}

// ---------------------------------------------------------------- mz

// `mz run proto= pkt=`: what the handler BEHIND edns sees when it materializes the request —
// the decoded, normalized message and the request-tree markers on its context — for a wire-born
// request (Request.materialize + Chain.detachStrictContext) and for the decoded form of the
// same packet (SetEdns0 in the decoded body).
type mprobe struct {
	reached bool
	sum     string
}

func (p *mprobe) Name() string { return "mprobe" }
func (p *mprobe) ServeDNS(ctx context.Context, ch *middleware.Chain) {
	p.reached = true
	ctx, req := ch.Materialize(ctx)
	if req == nil {
		p.sum = "undecodable"
		return
	}
	opt := "noopt"
	if o := req.IsEdns0(); o != nil {
		opt = fmt.Sprintf("udp=%d,do=%s,ver=%d,xr=%d,opts=%d", o.UDPSize(), vlib.B(o.Do()), o.Version(), o.ExtendedRcode(), len(o.Option))
	}
	q := "-"
	if len(req.Question) == 1 {
		q = fmt.Sprintf("%s/%d/%d", req.Question[0].Name, req.Question[0].Qtype, req.Question[0].Qclass)
	}
	p.sum = fmt.Sprintf("ecs=%s/id=%d/fl=%d/q=%s/an=%d/ns=%d/ar=%d/%s", vlib.B(middleware.HasClientECS(ctx)), req.Id, hdrWord(req.MsgHdr), q,
		len(req.Answer), len(req.Ns), len(req.Extra), opt)
	ch.Cancel()
}

func execMZ(a map[string]string) vlib.Res {
	pkt := vlib.UnHex(a["pkt"])
	proto := a["proto"]
	run := func(wire bool) string {
		pr := &mprobe{}
		w := mock.NewWriter(proto, "203.0.113.9:4242")
		ch := middleware.NewChain([]middleware.Handler{edH, pr})
		if wire {
			wreq := middleware.VerifC05WireRequest(pkt)
			if wreq == nil {
				return "none"
			}
			ch.ResetWire(w, wreq)
			ch.Next(context.Background())
			ch.Finish()
		} else {
			m := new(dns.Msg)
			if err := m.Unpack(pkt); err != nil || len(m.Question) != 1 {
				return "none"
			}
			ch.Reset(w, m)
			ch.Next(context.Background())
		}
		switch {
		case pr.reached:
			return pr.sum
		case w.Msg() != nil:
			return fmt.Sprintf("reply/rcode=%d", w.Msg().Rcode)
		}
		return "drop"
	}
	ws, ms := run(true), run(false)
	or := "ok"
	if ws == "none" {
		ms = "skip"
	} else if ws != ms {
		or = fmt.Sprintf("FAIL sig=c05/materialize/continuation-differs wire=%s msg=%s", ws, ms)
	}
	tags := ""
	if ws != "none" {
		tags = "nt"
	}
	return vlib.Res{Impl: "w=" + ws + " m=" + ms, Oracle: or, Tags: tags}
}
