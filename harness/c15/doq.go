//go:build verif

package main

// DNS-over-QUIC: the repository's doq.Server and doq.ResponseWriter over a
// real quic-go connection on loopback (technique of harness/c06, c10). The
// reply is a generated message written the way the server writes it — through
// the chain's base writer onto the DoQ transport — and read back by a client.
// RFC 9250 4.2.1: the Message ID on the stream is 0; otherwise the frame is
// the library's encoding, whichever encoder produced it.

import (
	"bytes"
	"context"
	"crypto/ecdsa"
	"crypto/elliptic"
	"crypto/rand"
	"crypto/tls"
	"crypto/x509"
	"crypto/x509/pkix"
	"encoding/binary"
	"fmt"
	"io"
	"math/big"
	"net"
	"sync"
	"time"

	"github.com/miekg/dns"
	"github.com/quic-go/quic-go"
	"github.com/semihalev/sdns/internal/verif/vlib"
	"github.com/semihalev/sdns/middleware"
	"github.com/semihalev/sdns/server/doq"
)

type doqHandler struct {
	mu      sync.Mutex
	reply   *dns.Msg
	direct  bool
	werr    error
	reqID   uint16
	paniced string
}

// ServeMsg answers every request with the pending reply, as server.serveMsg
// does: base writer over the transport, reply carrying the request's ID.
func (h *doqHandler) ServeMsg(_ context.Context, w middleware.Transport, req *dns.Msg) {
	h.mu.Lock()
	defer h.mu.Unlock()
	defer func() {
		if p := recover(); p != nil {
			h.paniced = fmt.Sprint(p)
		}
	}()
	h.reqID = req.Id
	if h.reply == nil {
		return
	}
	h.reply.Id = req.Id
	ch := middleware.NewChain(nil)
	ch.Reset(w, req)
	h.werr = ch.Writer.WriteMsg(h.reply)
}

var (
	doqH    = &doqHandler{}
	doqSrv  *doq.Server
	doqConn *quic.Conn
)

func doqCert() tls.Certificate {
	priv, err := ecdsa.GenerateKey(elliptic.P256(), rand.Reader)
	if err != nil {
		panic(err)
	}
	tmpl := x509.Certificate{SerialNumber: big.NewInt(15), Subject: pkix.Name{Organization: []string{"c15"}},
		NotBefore: time.Now().Add(-time.Hour), NotAfter: time.Now().Add(24 * time.Hour),
		KeyUsage: x509.KeyUsageDigitalSignature, ExtKeyUsage: []x509.ExtKeyUsage{x509.ExtKeyUsageServerAuth},
		DNSNames: []string{"localhost"}, BasicConstraintsValid: true}
	der, err := x509.CreateCertificate(rand.Reader, &tmpl, &tmpl, &priv.PublicKey, priv)
	if err != nil {
		panic(err)
	}
	return tls.Certificate{Certificate: [][]byte{der}, PrivateKey: priv}
}

func doqClient() (*quic.Conn, error) {
	if doqConn != nil && doqConn.Context().Err() == nil {
		return doqConn, nil
	}
	if doqSrv == nil {
		pc, err := net.ListenPacket("udp", "127.0.0.1:0")
		if err != nil {
			return nil, err
		}
		doqSrv = &doq.Server{Addr: pc.LocalAddr().String(), Handler: doqH}
		cfg := &tls.Config{Certificates: []tls.Certificate{doqCert()}, MinVersion: tls.VersionTLS13}
		go func() { _ = doqSrv.Serve(pc, cfg) }()
	}
	var last error
	for attempt := 0; attempt < 40; attempt++ {
		ctx, cancel := context.WithTimeout(context.Background(), 2*time.Second)
		c, err := quic.DialAddr(ctx, doqSrv.Addr, &tls.Config{InsecureSkipVerify: true, NextProtos: []string{"doq"}}, nil)
		cancel()
		if err == nil {
			doqConn = c
			return c, nil
		}
		last = err
		time.Sleep(5 * time.Millisecond)
	}
	return nil, last
}

// `msg doq lib=<outcome of dns.Msg.Pack with Id 0>`
func execDoQ(f []string) vlib.Res {
	if cur == nil || len(f) < 3 {
		return vlib.Res{Impl: "bad-op"}
	}
	under, ref, pristine := rebuild(), rebuild(), rebuild()
	ref.m.Id = 0
	want := libPack(ref.m)
	if f[2] != "lib="+want.String() {
		return vlib.Res{Impl: "stale-args", Oracle: "FAIL sig=harness/doq-args-do-not-describe-the-message lib=" + want.String()}
	}
	conn, err := doqClient()
	if err != nil {
		return vlib.Res{Impl: "skipped", Oracle: "-", Tags: "doq-unavailable"}
	}
	doqH.mu.Lock()
	doqH.reply, doqH.werr, doqH.paniced = under.m, nil, ""
	doqH.mu.Unlock()
	ctx, cancel := context.WithTimeout(context.Background(), 2*time.Second)
	st, err := conn.OpenStreamSync(ctx)
	cancel()
	if err != nil {
		doqConn = nil
		return vlib.Res{Impl: "skipped", Oracle: "-", Tags: "doq-unavailable"}
	}
	q := new(dns.Msg)
	q.SetQuestion("doq.example.", dns.TypeA)
	q.Id = 0
	qb, _ := q.Pack()
	_, _ = st.Write(append(binary.BigEndian.AppendUint16(nil, uint16(len(qb))), qb...))
	_ = st.Close()
	_ = st.SetReadDeadline(time.Now().Add(3 * time.Second))
	got, _ := io.ReadAll(st)
	doqH.mu.Lock()
	werr, paniced, reqID := doqH.werr, doqH.paniced, doqH.reqID
	doqH.reply = nil
	doqH.mu.Unlock()

	impl := "sent=none"
	var payload []byte
	if len(got) >= 2 && int(binary.BigEndian.Uint16(got)) == len(got)-2 {
		payload = got[2:]
		impl = fmt.Sprintf("sent=ok/%d", len(payload))
		if len(payload) >= 2 {
			impl += fmt.Sprintf(" id=%d", btoi(payload[0] != 0 || payload[1] != 0))
		}
	} else if len(got) > 0 {
		impl = "sent=bad-frame"
	}
	if paniced != "" {
		impl = "panic"
	}
	or := "ok"
	expect := want.kind == "ok" && len(want.b) <= 65535
	switch {
	case want.kind == "panic" || paniced != "":
		if (want.kind == "panic") != (paniced != "") {
			or = fmt.Sprintf("FAIL sig=doq/panic-mismatch want=%s", want.kind)
		}
	case expect && payload == nil:
		or = fmt.Sprintf("FAIL sig=doq/reply-not-sent err=%v want=%s", werr, want)
	case expect && len(payload) >= 2 && (payload[0] != 0 || payload[1] != 0):
		or = fmt.Sprintf("FAIL sig=doq/message-id-not-zero-on-the-stream id=%d request-id=%d", int(payload[0])<<8|int(payload[1]), reqID)
	case expect && !bytes.Equal(payload, want.b):
		or = fmt.Sprintf("FAIL sig=doq/reply-differs-from-library/%s got=%d want=%d", diffClass(payload, want.b), len(payload), len(want.b))
	case !expect && len(got) != 0:
		or = "FAIL sig=doq/sent-although-the-library-refuses want=" + want.String()
	}
	_ = pristine
	tags := "nt,doq"
	if under.ulen() > 4096 {
		tags += ",doq-big"
	}
	return vlib.Res{Impl: impl, Oracle: or, Tags: tags}
}

func btoi(b bool) int {
	if b {
		return 1
	}
	return 0
}
