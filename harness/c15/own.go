//go:build verif

package main

// Ownership of the pooled state: whatever happened to earlier packs (the
// consumer failed, panicked, the pack was declined half way, the transport
// write errored), a pooled state has ONE borrower at a time — so two packs
// that overlap in time (nested in a consumer, or on concurrent goroutines)
// never see each other's bytes.

import (
	"bytes"
	"errors"
	"fmt"
	"strings"
	"sync"

	"github.com/miekg/dns"
	"github.com/semihalev/sdns/internal/mock"
	"github.com/semihalev/sdns/internal/verif/vlib"
	"github.com/semihalev/sdns/internal/wire"
)

var errConsumer = errors.New("verif: transport write failed")

// a small message that passes the preflight but fails inside packInto
// (an option that cannot be packed), i.e. a decline AFTER the state was taken.
func packFailMsg() *dns.Msg {
	m := new(dns.Msg)
	m.SetQuestion("fail.example.", dns.TypeA)
	m.Id = 9
	m.Compress = true
	m.Answer = []dns.RR{&dns.A{Hdr: dns.RR_Header{Name: "fail.example.", Rrtype: dns.TypeA, Class: dns.ClassINET, Ttl: 1}, A: []byte{192, 0, 2, 1}}}
	o := optRec(0)
	o.Option = []dns.EDNS0{&dns.EDNS0_NSID{Code: dns.EDNS0NSID, Nsid: "not-hex"}}
	m.Extra = []dns.RR{o}
	return m
}

func eventMsg(i int) *dns.Msg {
	m := new(dns.Msg)
	m.SetQuestion(fmt.Sprintf("ev%d.example.org.", i), dns.TypeAAAA)
	m.Id = uint16(100 + i)
	m.Response = true
	m.Compress = true
	for k := 0; k < 1+i%3; k++ {
		m.Answer = append(m.Answer, &dns.AAAA{Hdr: dns.RR_Header{Name: m.Question[0].Name, Rrtype: dns.TypeAAAA, Class: dns.ClassINET, Ttl: 30}, AAAA: bytes.Repeat([]byte{byte(i), byte(k)}, 8)})
	}
	return m
}

// failWriter is a transport whose raw Write fails.
type failWriter struct {
	*mock.Writer
	writes, msgs int
}

func (w *failWriter) Write(b []byte) (int, error) { w.writes++; return 0, errConsumer }
func (w *failWriter) WriteMsg(m *dns.Msg) error   { w.msgs++; return nil }

// runEvent performs one earlier pack with the given ending; it returns a
// non-empty string when the ending itself broke TryPack's contract.
func runEvent(i int, ev string) string {
	switch ev {
	case "ok":
		tp := runTryPack(eventMsg(i))
		if !tp.handled {
			return "harness/event-message-not-handled"
		}
	case "err": // handled=true and the consumer's own error, exactly once
		calls := 0
		handled, err := wire.TryPack(eventMsg(i), func([]byte) error { calls++; return errConsumer })
		if !handled || err != errConsumer || calls != 1 {
			return fmt.Sprintf("own/consumer-error-not-reported handled=%v err=%v calls=%d", handled, err, calls)
		}
	case "panic": // the consumer's panic reaches the caller
		var got any
		func() {
			defer func() { got = recover() }()
			_, _ = wire.TryPack(eventMsg(i), func([]byte) error { panic("verif: consumer panic") })
		}()
		if got == nil {
			return "own/consumer-panic-swallowed"
		}
	case "fail":
		tp := runTryPack(packFailMsg())
		if tp.handled || tp.calls != 0 {
			return "own/unpackable-message-handled"
		}
	case "werr": // the reply path: the transport's Write fails; no second reply
		w := &failWriter{Writer: mock.NewWriter("udp", "192.0.2.7:5353")}
		req := new(dns.Msg)
		req.SetQuestion("write.example.", dns.TypeA)
		chain.Reset(w, req)
		chain.AllowDirectPack()
		err := chain.Writer.WriteMsg(eventMsg(i))
		if err != errConsumer || w.writes != 1 || w.msgs != 0 {
			return fmt.Sprintf("own/failed-write-handling err=%v writes=%d msgs=%d", err, w.writes, w.msgs)
		}
	case "decl": // declined before a state is taken
		m := eventMsg(i)
		m.Rcode = 300
		if tp := runTryPack(m); tp.handled {
			return "harness/decline-event-handled"
		}
	default:
		panic("bad event " + ev)
	}
	return ""
}

func runEvents(evs string) string {
	if evs == "-" {
		return ""
	}
	for i, ev := range strings.Split(evs, ",") {
		if s := runEvent(i, ev); s != "" {
			return s
		}
	}
	return ""
}

// `pool own <events>`: after the events, does the pool hand one state to two borrowers?
func execOwn(evs string) vlib.Res {
	wire.VerifPoolDrain(8) // start from a pool without leftovers of an earlier case
	bad := runEvents(evs)
	mult := wire.VerifPoolDrain(8)
	or := "ok"
	switch {
	case bad != "":
		or = "FAIL sig=" + bad
	case mult > 1:
		or = fmt.Sprintf("FAIL sig=pool/ownership/one-state-handed-to-two-borrowers multiplicity=%d after=%s", mult, evs)
	}
	return vlib.Res{Impl: "dup=" + vlib.B(mult > 1), Oracle: or, Tags: "nt,own"}
}

// nested packs: pack msgs[0]; inside its consumer pack msgs[1] (and so on),
// and only after the inner packs are done copy the own body. Every level
// must end up with the library's bytes.
func nestedPacks(msgs []*dns.Msg, wants []outcome, useClone bool) string {
	var rec func(level int) string
	rec = func(level int) string {
		if level == len(msgs) {
			return ""
		}
		inner := ""
		var got []byte
		handled, err := wire.TryPack(msgs[level], func(body []byte) error {
			if useClone && level+1 < len(msgs) && level%2 == 1 {
				c, cerr := wire.PackClone(msgs[level+1])
				if cerr != nil || !bytes.Equal(c, wants[level+1].b) {
					inner = "pool/overlap/inner-clone-differs-from-library"
				}
				if level+2 < len(msgs) {
					if s := rec(level + 2); s != "" {
						inner = s
					}
				}
			} else if s := rec(level + 1); s != "" {
				inner = s
			}
			got = append([]byte(nil), body...)
			return nil
		})
		switch {
		case inner != "":
			return inner
		case err != nil || !handled:
			return "harness/overlap-message-not-handled"
		case !bytes.Equal(got, wants[level].b):
			return fmt.Sprintf("pool/overlap/bytes-changed-while-another-pack-ran level=%d", level)
		}
		return ""
	}
	return rec(0)
}

// `pool overlap <events> <seed> <depth> <goroutines>`
func execOverlap(evs string, seed uint64, depth, goroutines int) vlib.Res {
	wire.VerifPoolDrain(8)
	bad := runEvents(evs)
	// messages the pooled packer handles: plain profile, retried until handled
	var msgs []*dns.Msg
	var wants []outcome
	for s := seed; len(msgs) < depth+goroutines && s < seed+200; s++ {
		b, ref := build(s, "plain"), build(s, "plain")
		w := libPack(ref.m)
		if w.kind == "ok" && b.pure && b.ulen() <= wire.VerifPackBufferSize && runTryPack(build(s, "plain").m).handled {
			msgs = append(msgs, b.m)
			wants = append(wants, w)
		}
	}
	or := "ok"
	if bad != "" {
		or = "FAIL sig=" + bad
	} else if len(msgs) < depth+goroutines {
		or = "-"
	} else if s := nestedPacks(msgs[:depth], wants[:depth], seed%2 == 0); s != "" {
		or = "FAIL sig=" + s + " after=" + evs
	} else if goroutines > 1 {
		// concurrent consumers, all inside at the same time (barrier), each
		// reading its body only after every other pack has written its own
		wire.VerifPoolDrain(8)
		if b2 := runEvents(evs); b2 != "" {
			or = "FAIL sig=" + b2
		} else {
			var inside, done sync.WaitGroup
			inside.Add(goroutines)
			done.Add(goroutines)
			var mu sync.Mutex
			fail := ""
			for g := 0; g < goroutines; g++ {
				go func(g int) {
					defer done.Done()
					entered := false
					defer func() {
						if !entered {
							inside.Done()
						}
					}()
					var got []byte
					handled, err := wire.TryPack(msgs[depth+g], func(body []byte) error {
						entered = true
						inside.Done()
						inside.Wait()
						got = append([]byte(nil), body...)
						return nil
					})
					if err != nil || !handled || !bytes.Equal(got, wants[depth+g].b) {
						mu.Lock()
						fail = "pool/overlap/concurrent-consumers-share-a-buffer"
						mu.Unlock()
					}
				}(g)
			}
			done.Wait()
			if fail != "" {
				or = "FAIL sig=" + fail + " after=" + evs
			}
		}
	}
	if wire.VerifPoolDrain(8) > 1 && or == "ok" {
		or = "FAIL sig=pool/ownership/one-state-handed-to-two-borrowers after=" + evs
	}
	return vlib.Res{Impl: "done", Oracle: or, Tags: "nt,own,overlap"}
}

var ownEvents = []string{"ok", "err", "panic", "fail", "werr", "decl"}

func genOwn(r *vlib.R, tier string, e func(string)) {
	// every single ending, every ordered pair (thorough: triple), then random longer histories
	e("pool own -")
	for _, a := range ownEvents {
		e("pool own " + a)
		e(fmt.Sprintf("pool overlap %s %d %d %d", a, r.U64()%100000, 2+r.Intn(2), 1+r.Intn(3)))
	}
	for _, a := range ownEvents {
		for _, b := range ownEvents {
			e("pool own " + a + "," + b)
			if tier == "thorough" {
				for _, c := range ownEvents {
					e("pool own " + a + "," + b + "," + c)
				}
			}
		}
	}
	n := 40
	if tier == "thorough" {
		n = 400
	}
	for i := 0; i < n; i++ {
		var evs []string
		for k := 0; k < 1+r.Intn(5); k++ {
			evs = append(evs, vlib.Pick(r, ownEvents))
		}
		e(fmt.Sprintf("pool overlap %s %d %d %d", strings.Join(evs, ","), r.U64()%100000, 2+r.Intn(3), 1+r.Intn(4)))
	}
	e("pool overlap - 7 4 4")
}

func ownFacts() map[string]any {
	out := map[string]any{}
	for _, ev := range []string{"ok", "err", "panic", "fail", "werr"} {
		max := 0
		for i := 0; i < 3; i++ {
			wire.VerifPoolDrain(8)
			_ = runEvent(i, ev)
			if m := wire.VerifPoolDrain(8); m > max {
				max = m
			}
		}
		out["puts_after_"+ev] = max
	}
	return out
}

// releaseFacts: after a handled pack that put n names into the dictionary
// (around and beyond maxPooledCompressionEntries) the pooled state is clean.
func releaseFacts() []bool {
	var out []bool
	for _, n := range []int{1, 30, 61, 62, 63, 64, 65, 66, 70, 130} {
		m := new(dns.Msg)
		m.SetQuestion("www.ex.com.", dns.TypeA)
		m.Id = 1
		m.Response = true
		m.Compress = true
		for i := 0; i < n; i++ {
			m.Answer = append(m.Answer, &dns.A{Hdr: dns.RR_Header{Name: fmt.Sprintf("h%d.ex.com.", i), Rrtype: dns.TypeA, Class: dns.ClassINET, Ttl: 1}, A: []byte{10, 0, 0, byte(i)}})
		}
		wire.VerifPoolDrain(8)
		tp := runTryPack(m)
		out = append(out, tp.handled && wire.VerifInspectPool(2) == "clean")
	}
	return out
}
