//go:build verif

package main

// DNS-over-HTTPS: the repository's doh.HandleWireFormat fed the way
// Server.ServeHTTP feeds it — the reply reaches a mock "doh" writer through
// the chain's base writer (no AllowDirectPack on this transport) and the
// handler packs what the writer holds. The HTTP body is the library's
// encoding of the reply, whether or not the pooled packer would have handled it.

import (
	"bytes"
	"encoding/base64"
	"fmt"
	"net/http"
	"net/http/httptest"

	"github.com/miekg/dns"
	"github.com/semihalev/sdns/internal/mock"
	"github.com/semihalev/sdns/internal/verif/vlib"
	"github.com/semihalev/sdns/middleware"
	"github.com/semihalev/sdns/server/doh"
)

var dohChain = middleware.NewChain(nil)

// `msg doh <get|post> lib=<outcome>`
func execDoH(f []string) vlib.Res {
	if cur == nil || len(f) < 4 {
		return vlib.Res{Impl: "bad-op"}
	}
	method := f[2]
	under, ref, pristine := rebuild(), rebuild(), rebuild()
	want := libPack(ref.m)
	if f[3] != "lib="+want.String() {
		return vlib.Res{Impl: "stale-args", Oracle: "FAIL sig=harness/doh-args-do-not-describe-the-message lib=" + want.String()}
	}
	q := new(dns.Msg)
	q.SetQuestion("doh.example.", dns.TypeA)
	q.Id = 0
	qb, _ := q.Pack()
	rawWrites := 0
	handle := func(req *dns.Msg) *dns.Msg {
		mw := &countWriter{Writer: mock.NewWriter("doh", "192.0.2.7:4433")}
		dohChain.Reset(mw, req)
		_ = dohChain.Writer.WriteMsg(under.m)
		rawWrites = mw.raw
		if !mw.Written() {
			return nil
		}
		return mw.Msg()
	}
	var r *http.Request
	if method == "get" {
		r = httptest.NewRequest(http.MethodGet, "/dns-query?dns="+base64.RawURLEncoding.EncodeToString(qb), nil)
	} else {
		r = httptest.NewRequest(http.MethodPost, "/dns-query", bytes.NewReader(qb))
		r.Header.Set("Content-Type", "application/dns-message")
	}
	rec := httptest.NewRecorder()
	paniced := false
	func() {
		defer func() {
			if recover() != nil {
				paniced = true
			}
		}()
		doh.HandleWireFormat(handle)(rec, r)
	}()
	body := rec.Body.Bytes()
	impl := fmt.Sprintf("%d", rec.Code)
	if rec.Code == 200 {
		impl = fmt.Sprintf("200 ok/%d", len(body))
	}
	if paniced {
		impl = "panic"
	}
	or := "ok"
	switch {
	case (want.kind == "panic") != paniced:
		or = "FAIL sig=doh/panic-mismatch want=" + want.kind
	case paniced:
	case rawWrites != 0:
		or = "FAIL sig=doh/raw-bytes-written-to-a-transport-that-did-not-declare-it"
	case want.kind == "ok" && (rec.Code != 200 || !bytes.Equal(body, want.b)):
		or = fmt.Sprintf("FAIL sig=doh/body-differs-from-library/%s status=%d got=%d want=%d", diffClass(body, want.b), rec.Code, len(body), len(want.b))
	case want.kind == "ok" && rec.Header().Get("Content-Type") != "application/dns-message":
		or = "FAIL sig=doh/content-type"
	case want.kind == "err" && rec.Code == 200:
		or = "FAIL sig=doh/answered-although-the-library-refuses"
	}
	_ = pristine
	tags := "nt,doh,doh-" + method
	if under.ulen() > 4096 {
		tags += ",doh-big"
	}
	return vlib.Res{Impl: impl, Oracle: or, Tags: tags}
}

// countWriter is the server's mock "doh" writer, counting raw writes.
type countWriter struct {
	*mock.Writer
	raw int
}

func (w *countWriter) Write(b []byte) (int, error) { w.raw++; return w.Writer.Write(b) }
