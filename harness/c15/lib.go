//go:build verif

package main

// The two assumptions the theorem handled_eq_library makes about the LIBRARY
// (github.com/miekg/dns), checked on the compiled library itself:
//
//	Mono  — a primitive that succeeds in a buffer of length L returns the very
//	        same result in every longer buffer;
//	hroom — Msg.Pack in the Len()+1 bytes it allocates for itself gives the same
//	        outcome as in a buffer at least as long as the pooled one.

import (
	"bytes"
	"fmt"
	"net"

	"github.com/miekg/dns"
	"github.com/semihalev/sdns/internal/mock"
	"github.com/semihalev/sdns/internal/verif/vlib"
	"github.com/semihalev/sdns/internal/wire"
)

type prim struct {
	ok  bool
	off int
	b   []byte
}

// writesAll: the bytes a primitive accounts for do not depend on what the
// buffer held before (it writes every one of them).
func writesAll(rr dns.RR, off int, dict map[string]int) (checked bool, violation string) {
	L := off + safeLen(rr) + 16
	a, b := packPrimFill(rr, L, off, dict, 0xA5), packPrimFill(rr, L, off, dict, 0x5A)
	if !a.ok || !b.ok {
		return false, ""
	}
	if a.off != b.off || !bytes.Equal(a.b, b.b) {
		return true, fmt.Sprintf("type=%s output-depends-on-previous-buffer-content", dns.TypeToString[rr.Header().Rrtype])
	}
	return true, ""
}

func packPrim(rr dns.RR, L, off int, dict map[string]int) (p prim) {
	return packPrimFill(rr, L, off, dict, 0)
}

func packPrimFill(rr dns.RR, L, off int, dict map[string]int, fill byte) (p prim) {
	defer func() {
		if recover() != nil {
			p = prim{}
		}
	}()
	buf := make([]byte, L)
	if fill != 0 {
		for i := range buf {
			buf[i] = fill
		}
	}
	var d map[string]int
	if dict != nil {
		d = make(map[string]int, len(dict))
		for k, v := range dict {
			d[k] = v
		}
	}
	off1, err := dns.PackRR(dns.Copy(rr), buf, off, d, d != nil)
	if err != nil || off1 < off || off1 > L {
		return prim{}
	}
	return prim{ok: true, off: off1, b: append([]byte(nil), buf[off:off1]...)}
}

// monoRecord: smallest buffer in which the record packs (bisection), then
// every longer buffer must give the identical result.
func monoRecord(rr dns.RR, off int, dict map[string]int) (checked bool, violation string) {
	hi := off + safeLen(rr) + 16
	top := packPrim(rr, hi, off, dict)
	if !top.ok {
		return false, ""
	}
	lo := off
	for lo < hi { // smallest L that succeeds, if success is monotone
		mid := (lo + hi) / 2
		if packPrim(rr, mid, off, dict).ok {
			hi = mid
		} else {
			lo = mid + 1
		}
	}
	base := packPrim(rr, lo, off, dict)
	if !base.ok {
		return true, fmt.Sprintf("type=%s bisection-found-no-threshold", dns.TypeToString[rr.Header().Rrtype])
	}
	for _, L := range []int{lo + 1, lo + 2, lo + 3, lo + 5, lo + 8, lo + 64, wire.VerifPackBufferSize, wire.VerifPackBufferSize + 1, 65535} {
		if L <= lo {
			continue
		}
		p := packPrim(rr, L, off, dict)
		if !p.ok || p.off != base.off || !bytes.Equal(p.b, base.b) {
			return true, fmt.Sprintf("type=%s L=%d then L=%d", dns.TypeToString[rr.Header().Rrtype], lo, L)
		}
	}
	return true, ""
}

// libAssumptions checks both assumptions on one generated message.
func libAssumptions(seed uint64, profile string) (records, monoViol, hroomViol, writeViol int, detail string) {
	b := build(seed, profile)
	dict := map[string]int{}
	if len(b.m.Question) > 0 {
		buf := make([]byte, 600)
		func() {
			defer func() { _ = recover() }()
			_, _ = dns.PackDomainName(b.m.Question[0].Name, buf, 12, dict, true)
		}()
	}
	for si, sec := range [][]dns.RR{b.m.Answer, b.m.Ns, b.m.Extra} {
		for i, rr := range sec {
			k := b.kinds[si][i]
			if k == "n" || k == "f" || !wire.VerifAdmissibleRR(rr) {
				continue // the assumptions are about what the pooled packer ADMITS
			}
			for _, variant := range []struct {
				off  int
				dict map[string]int
			}{{12, nil}, {137, nil}, {60, dict}} {
				checked, v := monoRecord(rr, variant.off, variant.dict)
				if checked {
					records++
				}
				if v != "" {
					monoViol++
					detail = "mono " + v
				}
				if _, w := writesAll(rr, variant.off, variant.dict); w != "" {
					writeViol++
					detail = "writes-all " + w
				}
			}
		}
	}
	// hroom
	m1, m2 := build(seed, profile).m, build(seed, profile).m
	o1 := libPack(m1)
	if o1.kind != "panic" {
		n := build(seed, profile).ulen() + 1
		if n < wire.VerifPackBufferSize {
			n = wire.VerifPackBufferSize
		}
		o2 := capture(func() ([]byte, error) { return m2.PackBuffer(make([]byte, n)) })
		if !same(o1, o2) {
			hroomViol++
			detail = fmt.Sprintf("hroom own-buffer=%s larger-buffer=%s", o1, o2)
		}
	}
	return
}

func execLibRoom() vlib.Res {
	if cur == nil {
		return vlib.Res{Impl: "bad-op"}
	}
	recs, mv, hv, wv, detail := libAssumptions(curSeed, curProfile)
	or := "ok"
	switch {
	case mv > 0:
		or = "FAIL sig=lib/assumption-mono-does-not-hold " + detail
	case hv > 0:
		or = "FAIL sig=lib/assumption-hroom-does-not-hold " + detail
	case wv > 0:
		or = "FAIL sig=lib/assumption-writes-all-does-not-hold " + detail
	}
	return vlib.Res{Impl: fmt.Sprintf("records=%d", recs), Oracle: or, Tags: "nt,libroom"}
}

// libFacts: the same over a fixed sample (every profile x 40 seeds).
func libFacts() [5]int {
	var out [5]int
	seen := map[string]bool{}
	for _, p := range profiles {
		if seen[p] {
			continue
		}
		seen[p] = true
		for s := uint64(1); s <= 40; s++ {
			r, mv, hv, wv, _ := libAssumptions(s*7919, p)
			out[0] += mv
			out[1] += hv
			out[2] += r
			out[3]++
			out[4] += wv
		}
	}
	return out
}

// writeWhileBorrowed: on the reply path the transport's Write runs while the
// state whose buffer it is given is still borrowed.
func writeWhileBorrowed() bool {
	for i := 0; i < 3; i++ {
		w := &capWriter{Writer: mock.NewWriter("udp", "192.0.2.7:5353")}
		req := new(dns.Msg)
		req.SetQuestion("write.example.", dns.TypeA)
		chain.Reset(w, req)
		chain.AllowDirectPack()
		if err := chain.Writer.WriteMsg(eventMsg(i)); err != nil || w.writes != 1 || w.released {
			return false
		}
	}
	return true
}

// admissionOfSkipWriters: the compiled admissibleRR on the records whose library
// packing skips bytes (must be refused: 0) and on their harmless look-alikes (1).
func admissionOfSkipWriters() []int {
	v6, mapped, v4 := net.ParseIP("2001:db8::1"), net.ParseIP("192.0.2.33"), net.IPv4(192, 0, 2, 33).To4()
	near := net.ParseIP("2001:db8::ffff:c000:201") // ff:ff in octets 10-11, NOT IPv4-mapped
	h := func(t uint16) dns.RR_Header { return dns.RR_Header{Name: "x.", Rrtype: t, Class: dns.ClassINET} }
	rrs := []dns.RR{
		&dns.A{Hdr: h(dns.TypeA), A: v6}, &dns.A{Hdr: h(dns.TypeA), A: mapped}, &dns.A{Hdr: h(dns.TypeA), A: v4}, &dns.A{Hdr: h(dns.TypeA)},
		&dns.L32{Hdr: h(dns.TypeL32), Locator32: v6}, &dns.L32{Hdr: h(dns.TypeL32), Locator32: v4},
		&dns.IPSECKEY{Hdr: h(dns.TypeIPSECKEY), GatewayType: dns.IPSECGatewayIPv4, GatewayAddr: v6}, &dns.IPSECKEY{Hdr: h(dns.TypeIPSECKEY), GatewayType: dns.IPSECGatewayIPv6, GatewayAddr: v6},
		&dns.AMTRELAY{Hdr: h(dns.TypeAMTRELAY), GatewayType: dns.AMTRELAYIPv4, GatewayAddr: v6}, &dns.AMTRELAY{Hdr: h(dns.TypeAMTRELAY), GatewayType: dns.AMTRELAYIPv6, GatewayAddr: v6},
		&dns.A{Hdr: h(dns.TypeA), A: near}, &dns.L32{Hdr: h(dns.TypeL32), Locator32: near}, &dns.A{Hdr: h(dns.TypeA), A: net.ParseIP("::fffe:c000:201")},
		&dns.A{Hdr: h(dns.TypeA), A: net.ParseIP("::ffff:c000:201")}, &dns.A{Hdr: h(dns.TypeA), A: net.IPv6zero}, &dns.A{Hdr: h(dns.TypeA), A: net.ParseIP("1::ffff:c000:201")},
	}
	var out []int
	for _, rr := range rrs {
		if wire.VerifAdmissibleRR(rr) {
			out = append(out, 1)
		} else {
			out = append(out, 0)
		}
	}
	return out
}
