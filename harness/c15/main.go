//go:build verif

// Correspondence driver for C15 (the pooled packer is byte-identical to the
// library and side-effect free).
//
// Real code under test: wire.TryPack, wire.PackClone (and through accessors
// msgBits, selectOPT, the pool), middleware.responseWriter.WriteMsg with
// AllowDirectPack.  Reference: dns.Msg.Pack on an independently REBUILT copy
// of the same message (the builder is a pure function of (seed, profile), so
// nil records, foreign types and pointer aliasing survive the "deep copy").
package main

import (
	"bytes"
	"context"
	"crypto/sha256"
	"errors"
	"fmt"
	"net"
	"reflect"
	"strconv"
	"strings"
	"sync"
	"sync/atomic"
	"time"

	"github.com/miekg/dns"
	"github.com/semihalev/sdns/internal/mock"
	"github.com/semihalev/sdns/internal/verif/vlib"
	"github.com/semihalev/sdns/internal/wire"
	"github.com/semihalev/sdns/middleware"
	"github.com/semihalev/sdns/middleware/cache"
)

// ---------------------------------------------------------------- outcomes

type outcome struct {
	kind string // ok | err | panic
	b    []byte
	msg  string
}

func (o outcome) String() string {
	switch o.kind {
	case "ok":
		return fmt.Sprintf("ok/%d", len(o.b))
	case "err":
		return "err/" + strings.ReplaceAll(o.msg, " ", "_")
	}
	return "panic"
}

func same(a, b outcome) bool {
	if a.kind != b.kind {
		return false
	}
	switch a.kind {
	case "ok":
		return bytes.Equal(a.b, b.b)
	case "err":
		return a.msg == b.msg
	}
	return true
}

func capture(f func() ([]byte, error)) (o outcome) {
	defer func() {
		if p := recover(); p != nil {
			o = outcome{kind: "panic", msg: fmt.Sprint(p)}
		}
	}()
	b, err := f()
	if err != nil {
		return outcome{kind: "err", msg: err.Error()}
	}
	return outcome{kind: "ok", b: b}
}

// libPack is the property's reference: the library's own Pack.
func libPack(m *dns.Msg) outcome { return capture(m.Pack) }

// where two encodings first differ, as a stable signature fragment.
func diffClass(got, want []byte) string {
	n := len(got)
	if len(want) < n {
		n = len(want)
	}
	for i := 0; i < n; i++ {
		if got[i] != want[i] {
			switch {
			case i < 2:
				return "id"
			case i < 4:
				return "header-word"
			case i < 12:
				return "section-counts"
			}
			if len(got) != len(want) {
				return "body-and-length"
			}
			return "body"
		}
	}
	return "length"
}

// ---------------------------------------------------------------- state

var (
	cur        *built
	curSeed    uint64
	curProfile string
)

func rebuild() *built { return build(curSeed, curProfile) }

// tryPack runs the real TryPack and records everything observable.
type tpRes struct {
	handled  bool
	err      error
	calls    int
	body     []byte // copy of the slice, read up to CAPACITY
	length   int
	capacity int
	panicked string
}

func runTryPack(m *dns.Msg) (r tpRes) {
	defer func() {
		if p := recover(); p != nil {
			r.panicked = fmt.Sprint(p)
		}
	}()
	r.handled, r.err = wire.TryPack(m, func(body []byte) error {
		r.calls++
		r.length, r.capacity = len(body), cap(body)
		r.body = append([]byte(nil), body[:cap(body)]...)
		return nil
	})
	return r
}

// what changed in a message, as a signature fragment.
func mutationClass(after, before *dns.Msg) string {
	if after.Compress != before.Compress {
		return "compress-flag"
	}
	if !reflect.DeepEqual(after.MsgHdr, before.MsgHdr) {
		return "header"
	}
	secs := [3][2][]dns.RR{{after.Answer, before.Answer}, {after.Ns, before.Ns}, {after.Extra, before.Extra}}
	for _, s := range secs {
		if len(s[0]) != len(s[1]) {
			return "section-length"
		}
		for i := range s[0] {
			a, b := s[0][i], s[1][i]
			if reflect.DeepEqual(a, b) {
				continue
			}
			if a == nil || b == nil || reflect.TypeOf(a) != reflect.TypeOf(b) {
				return "record-replaced"
			}
			if v := reflect.ValueOf(a); v.Kind() == reflect.Pointer && v.IsNil() {
				return "record-replaced"
			}
			ha, hb := *a.Header(), *b.Header()
			if ha.Ttl != hb.Ttl {
				if _, ok := a.(*dns.OPT); ok {
					return "opt-ttl"
				}
				return "ttl"
			}
			if ha.Rdlength != hb.Rdlength {
				return "rdlength"
			}
			return "record-fields"
		}
	}
	if !reflect.DeepEqual(after.Question, before.Question) {
		return "question"
	}
	return "other"
}

func unchanged(after, before *dns.Msg) bool { return reflect.DeepEqual(after, before) }

// ---------------------------------------------------------------- exec

// exec wraps the ops: a failure on a message that holds a record whose LIBRARY packing skips
// bytes (candidate finding, notes/C15.md) gets its own stable signature family.
func exec(op string) vlib.Res {
	res := exec1(op)
	if cur != nil && cur.skips && strings.HasPrefix(res.Oracle, "FAIL sig=") && !strings.HasPrefix(res.Oracle, "FAIL sig=harness/") {
		rest := strings.TrimPrefix(res.Oracle, "FAIL sig=")
		if strings.HasPrefix(rest, "serve/sent-bytes-are-not-the-library-encoding/") {
			// the owned transports' Msg path packs into a reused slab (udpJob/tcpJob.WriteMsg -> PackBuffer(j.tx)):
			// the span the library skips goes out with the previous reply's bytes
			i := strings.IndexByte(rest, ' ')
			if i < 0 {
				i = len(rest)
			}
			rest = "serve/transport-slab-bytes-sent" + rest[i:]
		}
		res.Oracle = "FAIL sig=skipwrite/" + rest
	}
	return res
}

func exec1(op string) vlib.Res {
	f := strings.Fields(op)
	if len(f) < 2 {
		return vlib.Res{Impl: "bad-op"}
	}
	switch f[0] + " " + f[1] {
	case "hdr bits":
		return execHdr(f)
	case "opt select":
		return execOptSelect(f)
	case "opt ttl":
		return execOptTTL(f)
	case "msg new":
		curSeed, curProfile = vlib.AtoU64(f[2]), f[3]
		cur = rebuild()
		return vlib.Res{Impl: "ok"}
	case "msg decide":
		return execDecide(op)
	case "msg pack":
		return execPack()
	case "msg clone":
		return execClone()
	case "msg write":
		return execWrite(f)
	case "msg fingerprint":
		return execFingerprint()
	case "cache flags":
		return execCacheFlags(f)
	case "cache strip":
		return execCacheStrip(f[2], f[3])
	case "cache view":
		return execCacheView(f[2])
	case "msg doh":
		return execDoH(f)
	case "msg doq":
		return execDoQ(f)
	case "msg serve":
		return execServe(f)
	case "lib room":
		return execLibRoom()
	case "msg cache":
		return execCache()
	case "msg stripped":
		return execStripped()
	case "msg cachepair":
		return execCachePair()
	case "pool dirty":
		return execDirty()
	case "pool inspect":
		return execInspect()
	case "pool reuse":
		return execReuse(vlib.AtoU64(f[2]), f[3], vlib.AtoU64(f[4]), f[5])
	case "pool own":
		return execOwn(f[2])
	case "pool overlap":
		return execOverlap(f[2], vlib.AtoU64(f[3]), vlib.Atoi(f[4]), vlib.Atoi(f[5]))
	case "conc run":
		return execConc(vlib.AtoU64(f[2]), vlib.Atoi(f[3]), vlib.Atoi(f[4]))
	}
	return vlib.Res{Impl: "bad-op"}
}

func flagMsg(fl string, opcode, rcode int) *dns.Msg {
	m := new(dns.Msg)
	b := func(i int) bool { return fl[i] == 't' }
	m.Response, m.Authoritative, m.Truncated, m.RecursionDesired = b(0), b(1), b(2), b(3)
	m.RecursionAvailable, m.Zero, m.AuthenticatedData, m.CheckingDisabled = b(4), b(5), b(6), b(7)
	m.Opcode, m.Rcode = opcode, rcode
	return m
}

func execHdr(f []string) vlib.Res {
	fl := f[2]
	opcode, rcode := vlib.Atoi(f[3]), vlib.Atoi(f[4])
	m := flagMsg(fl, opcode, rcode)
	m.Id = 0xBEEF
	got := wire.VerifMsgBits(m)
	or := "ok"
	// reference 1: RFC 1035 4.1.1, fields at their positions (4-bit opcode, any rcode's low nibble)
	if opcode >= 0 && opcode <= 15 {
		want := 0
		for i, w := range []int{32768, 1024, 512, 256, 128, 64, 32, 16} {
			if fl[i] == 't' {
				want += w
			}
		}
		want += opcode*2048 + ((rcode%16)+16)%16
		if int(got) != want {
			or = fmt.Sprintf("FAIL sig=hdr/bits/rfc1035-layout want=%04x got=%04x", want, got)
		}
	}
	// reference 2: the library's header for the same fields
	if rcode >= 0 && rcode <= 0xFFF {
		ref := flagMsg(fl, opcode, rcode)
		ref.Id = 0xBEEF
		if rcode > 15 {
			ref.Extra = []dns.RR{&dns.OPT{Hdr: dns.RR_Header{Name: ".", Rrtype: dns.TypeOPT}}}
		}
		lo := libPack(ref)
		if lo.kind == "ok" {
			if w := uint16(lo.b[2])<<8 | uint16(lo.b[3]); w != got {
				or = fmt.Sprintf("FAIL sig=hdr/bits/differs-from-library want=%04x got=%04x", w, got)
			}
			// and the packer's own output carries that word
			m2 := flagMsg(fl, opcode, rcode)
			m2.Id = 0xBEEF
			if rcode > 15 {
				m2.Extra = []dns.RR{&dns.OPT{Hdr: dns.RR_Header{Name: ".", Rrtype: dns.TypeOPT}}}
			}
			tp := runTryPack(m2)
			if tp.handled && !bytes.Equal(tp.body[:tp.length], lo.b) {
				or = "FAIL sig=hdr/pack/" + diffClass(tp.body[:tp.length], lo.b)
			}
		}
	}
	return vlib.Res{Impl: fmt.Sprintf("%04x", got), Oracle: or, Tags: "nt"}
}

func optRec(ttl uint32) *dns.OPT {
	return &dns.OPT{Hdr: dns.RR_Header{Name: ".", Rrtype: dns.TypeOPT, Class: 1232, Ttl: ttl}}
}

func kindRR(k string) dns.RR {
	switch k {
	case "n":
		return nil
	case "o":
		return optRec(0x8000)
	case "w":
		return &dns.A{Hdr: dns.RR_Header{Name: "w.example.", Rrtype: dns.TypeOPT, Class: dns.ClassINET}, A: net.IPv4(192, 0, 2, 9).To4()}
	case "x":
		return &dns.OPT{Hdr: dns.RR_Header{Name: ".", Rrtype: dns.TypeA, Class: dns.ClassINET}}
	}
	return &dns.A{Hdr: dns.RR_Header{Name: "a.example.", Rrtype: dns.TypeA, Class: dns.ClassINET, Ttl: 5}, A: net.IPv4(192, 0, 2, 1).To4()}
}

func execOptSelect(f []string) vlib.Res {
	m := new(dns.Msg)
	if f[2] != "-" {
		for _, k := range strings.Split(f[2], ",") {
			m.Extra = append(m.Extra, kindRR(k))
		}
	}
	opt, safe := wire.VerifSelectOPT(m)
	idx := "-"
	if opt != nil {
		for i, rr := range m.Extra {
			if o, ok := rr.(*dns.OPT); ok && o == opt {
				idx = strconv.Itoa(i)
			}
		}
	}
	// reference: the library's IsEdns0 (a panic is the "unsafe" shape)
	var ref *dns.OPT
	panicked := false
	func() {
		defer func() {
			if recover() != nil {
				panicked = true
			}
		}()
		ref = m.IsEdns0()
	}()
	or := "ok"
	switch {
	case panicked && safe:
		or = "FAIL sig=opt/select/safe-on-library-panic"
	case !panicked && !safe:
		or = "FAIL sig=opt/select/unsafe-but-library-selects"
	case !panicked && ref != opt:
		or = "FAIL sig=opt/select/other-record-than-IsEdns0"
	case !safe && opt != nil:
		or = "FAIL sig=opt/select/record-returned-with-unsafe"
	}
	return vlib.Res{Impl: fmt.Sprintf("idx=%s safe=%s", idx, vlib.B(safe)), Oracle: or, Tags: "nt"}
}

func execOptTTL(f []string) vlib.Res {
	tb := vlib.UnHex(f[2])
	ttl := uint32(tb[0])<<24 | uint32(tb[1])<<16 | uint32(tb[2])<<8 | uint32(tb[3])
	rcode := vlib.Atoi(f[3])
	mk := func() (*dns.Msg, *dns.OPT) {
		m := new(dns.Msg)
		m.SetQuestion("ttl.example.", dns.TypeA)
		m.Id = 0x1234
		m.Response = true
		m.Rcode = rcode
		o := optRec(ttl)
		m.Extra = []dns.RR{o}
		return m, o
	}
	m, o := mk()
	tp := runTryPack(m)
	if !tp.handled || tp.length < 12 {
		return vlib.Res{Impl: "declined", Oracle: "FAIL sig=opt/ttl/plain-message-declined"}
	}
	b := tp.body[:tp.length]
	n := len(b)
	got := uint32(b[n-6])<<24 | uint32(b[n-5])<<16 | uint32(b[n-4])<<8 | uint32(b[n-3])
	or := "ok"
	switch {
	case int(got>>24) != rcode>>4:
		or = fmt.Sprintf("FAIL sig=opt/ttl/extended-rcode-byte want=%02x got=%02x", rcode>>4, got>>24)
	case got&0x00FFFFFF != ttl&0x00FFFFFF:
		or = "FAIL sig=opt/ttl/version-or-flags-changed"
	case int(b[3]&0xF) != rcode&0xF:
		or = "FAIL sig=opt/ttl/header-nibble"
	case o.Hdr.Ttl != ttl:
		or = fmt.Sprintf("FAIL sig=opt/ttl/written-into-callers-opt before=%08x after=%08x", ttl, o.Hdr.Ttl)
	}
	if or == "ok" {
		ref, _ := mk()
		if lo := libPack(ref); lo.kind != "ok" || !bytes.Equal(lo.b, b) {
			or = "FAIL sig=opt/ttl/differs-from-library"
		}
	}
	return vlib.Res{Impl: fmt.Sprintf("%08x", got), Oracle: or, Tags: "nt"}
}

func execDecide(op string) vlib.Res {
	if cur == nil {
		return vlib.Res{Impl: "bad-op"}
	}
	if want := "msg decide " + describe(rebuild()); want != op {
		return vlib.Res{Impl: "stale-args", Oracle: "FAIL sig=harness/decide-args-do-not-describe-the-message " + want}
	}
	m := rebuild().m
	tp := runTryPack(m)
	if tp.panicked != "" {
		return vlib.Res{Impl: "panic", Oracle: "FAIL sig=decide/trypack-panicked " + tp.panicked}
	}
	impl := "handled=f"
	tags := "declined"
	if tp.handled {
		impl = fmt.Sprintf("handled=t len=%d", tp.length)
		tags = "handled"
	}
	return vlib.Res{Impl: impl, Tags: tags}
}

func execPack() vlib.Res {
	if cur == nil {
		return vlib.Res{Impl: "bad-op"}
	}
	under, ref, pristine := rebuild(), rebuild(), rebuild()
	want := libPack(ref.m)
	before := atomic.LoadInt64(&foreignCalls)
	tp := runTryPack(under.m)
	foreign := atomic.LoadInt64(&foreignCalls) - before
	tags := []string{"nt", under.class()}
	impl := "handled=f"
	if tp.handled {
		impl = fmt.Sprintf("handled=t len=%d", tp.length)
		tags = append(tags, "handled")
	} else {
		tags = append(tags, "declined")
	}
	or := "ok"
	switch {
	case tp.panicked != "":
		impl = "panic"
		or = "FAIL sig=pack/trypack-panicked " + tp.panicked
	case tp.err != nil:
		or = "FAIL sig=pack/error-not-from-consumer " + tp.err.Error()
	case foreign != 0:
		or = fmt.Sprintf("FAIL sig=pack/foreign-code-ran-inside-the-pooled-packer calls=%d handled=%v", foreign, tp.handled)
	case !tp.handled && tp.calls != 0:
		or = "FAIL sig=pack/declined/output-already-produced"
	case tp.handled && tp.calls != 1:
		or = fmt.Sprintf("FAIL sig=pack/handled/consume-called-%d-times", tp.calls)
	case tp.handled && want.kind != "ok":
		or = "FAIL sig=pack/handled/library-refuses-this-message lib=" + want.String()
	case tp.handled && !bytes.Equal(tp.body[:tp.length], want.b):
		or = fmt.Sprintf("FAIL sig=pack/handled/bytes-differ/%s got=%d want=%d bytes", diffClass(tp.body[:tp.length], want.b), tp.length, len(want.b))
	case tp.handled && tp.capacity != tp.length:
		or = fmt.Sprintf("FAIL sig=pack/handled/capacity-exposes-pool len=%d cap=%d", tp.length, tp.capacity)
	case !unchanged(under.m, pristine.m):
		or = "FAIL sig=pack/message-mutated/" + mutationClass(under.m, pristine.m)
	}
	if want.kind == "ok" && len(want.b) >= 4090 && len(want.b) <= 4100 {
		tags = append(tags, "boundary")
	}
	if under.m.Rcode > 15 {
		tags = append(tags, "extrcode")
	}
	if want.kind == "ok" && under.m.Compress && len(want.b)+40 < under.ulen() {
		tags = append(tags, "compressed")
	}
	return vlib.Res{Impl: impl, Oracle: or, Tags: strings.Join(tags, ",")}
}

func execClone() vlib.Res {
	if cur == nil {
		return vlib.Res{Impl: "bad-op"}
	}
	under, ref, pristine := rebuild(), rebuild(), rebuild()
	want := libPack(ref.m)
	got := capture(func() ([]byte, error) { return wire.PackClone(under.m) })
	or := "ok"
	switch {
	case !same(got, want):
		cls := got.kind + "-vs-" + want.kind
		if got.kind == "ok" && want.kind == "ok" {
			cls = "bytes-differ/" + diffClass(got.b, want.b)
		}
		or = fmt.Sprintf("FAIL sig=clone/%s got=%s want=%s", cls, got, want)
	case got.kind == "ok" && cap(got.b) != len(got.b):
		or = "FAIL sig=clone/not-exact-size"
	case under.pure && !unchanged(under.m, pristine.m):
		// library records only: the promise of both the pooled path and libraryPackImmutable
		or = "FAIL sig=clone/message-mutated/" + mutationClass(under.m, pristine.m)
	}
	return vlib.Res{Impl: got.String(), Oracle: or, Tags: "nt"}
}

// capWriter is a transport that keeps what was written to it.
type capWriter struct {
	*mock.Writer
	raw      []byte
	writes   int
	msgs     int
	released bool // the buffer handed to Write was already back in the pool
	fail     bool
}

// Write is what an owned transport does with a reply, with the rest of the
// server going on around it: before the bytes are copied out, another request
// packs its own reply through the pool and every resting buffer gets
// overwritten. Bytes that are still borrowed do not care.
func (w *capWriter) Write(b []byte) (int, error) {
	w.writes++
	if wire.VerifBufferPooled(b, 6) {
		w.released = true
	}
	other := new(dns.Msg)
	other.SetQuestion("another.request.example.", dns.TypeMX)
	other.Id = 0x5A5A
	other.Response = true
	other.Answer = []dns.RR{&dns.MX{Hdr: dns.RR_Header{Name: "another.request.example.", Rrtype: dns.TypeMX, Class: dns.ClassINET, Ttl: 9}, Preference: 1, Mx: "mx.another.request.example."}}
	_, _ = wire.PackClone(other)
	wire.VerifPoisonPool(4, sentinel)
	w.raw = append([]byte(nil), b...)
	if w.fail {
		return 0, errConsumer
	}
	return len(b), nil
}
func (w *capWriter) WriteMsg(m *dns.Msg) error {
	w.msgs++
	o := capture(m.Pack)
	w.raw = o.b
	if o.kind == "panic" {
		panic(o.msg)
	}
	if o.kind != "ok" {
		return fmt.Errorf("%s", o.msg)
	}
	return nil
}

var chain = middleware.NewChain(nil)

// the reply path: responseWriter.WriteMsg. `msg write <directPack> <internal> lib=<outcome>`
func execWrite(f []string) vlib.Res {
	if cur == nil || len(f) < 5 {
		return vlib.Res{Impl: "bad-op"}
	}
	dp, internal := f[2] == "t", f[3] == "t"
	under, ref, pristine := rebuild(), rebuild(), rebuild()
	want := libPack(ref.m)
	if f[4] != "lib="+want.String() {
		return vlib.Res{Impl: "stale-args", Oracle: "FAIL sig=harness/write-args-do-not-describe-the-message lib=" + want.String()}
	}
	addr := "192.0.2.7:5353"
	if internal {
		addr = "127.0.0.255:0"
	}
	w := &capWriter{Writer: mock.NewWriter(vlib.Pick(vlib.NewR(curSeed), []string{"udp", "tcp"}), addr)}
	req := new(dns.Msg)
	req.SetQuestion("write.example.", dns.TypeA)
	chain.Reset(w, req)
	if dp {
		chain.AllowDirectPack()
	}
	got := capture(func() ([]byte, error) {
		err := chain.Writer.WriteMsg(under.m)
		return w.raw, err
	})
	or := "ok"
	switch {
	case !same(got, want):
		or = fmt.Sprintf("FAIL sig=write/reply-differs-from-library got=%s want=%s", got, want)
	case w.writes+w.msgs != 1 && got.kind != "panic":
		or = fmt.Sprintf("FAIL sig=write/not-exactly-one-reply writes=%d msgs=%d", w.writes, w.msgs)
	case w.released:
		or = "FAIL sig=write/transport-given-a-buffer-already-back-in-the-pool"
	case w.writes == 1 && (!dp || internal):
		or = "FAIL sig=write/raw-bytes-to-an-undeclared-or-internal-writer"
	case !unchanged(under.m, pristine.m) && w.writes == 1: // on the library path the TRANSPORT packs (and the library writes its OPT)
		or = "FAIL sig=write/message-mutated/" + mutationClass(under.m, pristine.m)
	case got.kind != "panic" && chain.Writer.Msg() != under.m:
		or = "FAIL sig=write/msg-identity-lost"
	}
	impl := "lib:" + got.String()
	path := "lib"
	if w.writes == 1 {
		path = "direct"
		impl = fmt.Sprintf("direct:%s size=%d", got, middleware.ResponseSize(chain.Writer))
	}
	return vlib.Res{Impl: impl, Oracle: or, Tags: "nt," + path + ",w-" + w.Proto()}
}

// the negative-proof seal: validatedNegativeProofFingerprint hashes the packed
// {Rcode, Ns} of a proof inside the pooled buffer.
func execFingerprint() vlib.Res {
	if cur == nil {
		return vlib.Res{Impl: "bad-op"}
	}
	under, ref, pristine := rebuild(), rebuild(), rebuild()
	sealed := new(dns.Msg)
	sealed.Rcode = ref.m.Rcode
	sealed.Ns = ref.m.Ns
	want := libPack(sealed)
	var sum [32]byte
	ok := false
	got := capture(func() ([]byte, error) {
		sum, ok = middleware.VerifC15ProofFingerprint(under.m)
		if !ok {
			return nil, errors.New("no-fingerprint")
		}
		return sum[:], nil
	})
	if want.kind == "ok" {
		h := sha256.Sum256(want.b)
		want.b = h[:]
	} else if want.kind == "err" {
		want.msg = "no-fingerprint"
	}
	or := "ok"
	switch {
	case !same(got, want):
		or = fmt.Sprintf("FAIL sig=fingerprint/not-the-hash-of-the-library-encoding got=%s want=%s", got.kind, want.kind)
	case got.kind != "panic" && !unchanged(under.m, pristine.m):
		or = "FAIL sig=fingerprint/message-mutated/" + mutationClass(under.m, pristine.m)
	}
	return vlib.Res{Impl: got.kind, Oracle: or, Tags: "nt,fingerprint"}
}

// rrOfType builds a record of the given type under the given owner (the types prepareWireServe looks at,
// and bystanders).
func rrOfType(t uint16, owner string, i int) dns.RR {
	h := dns.RR_Header{Name: owner, Rrtype: t, Class: dns.ClassINET, Ttl: 60}
	switch t {
	case dns.TypeA:
		return &dns.A{Hdr: h, A: net.IPv4(192, 0, 2, byte(i)).To4()}
	case dns.TypeAAAA:
		return &dns.AAAA{Hdr: h, AAAA: net.ParseIP("2001:db8::1")}
	case dns.TypeCNAME:
		return &dns.CNAME{Hdr: h, Target: "target.example."}
	case dns.TypeSOA:
		return &dns.SOA{Hdr: h, Ns: "ns.example.", Mbox: "h.example.", Serial: uint32(i), Refresh: 2, Retry: 3, Expire: 4, Minttl: 5}
	case dns.TypeDS:
		return &dns.DS{Hdr: h, KeyTag: uint16(i), Algorithm: 13, DigestType: 2, Digest: "00ff"}
	case dns.TypeRRSIG:
		return &dns.RRSIG{Hdr: h, TypeCovered: dns.TypeA, Algorithm: 13, Labels: 2, OrigTtl: 60, Expiration: 1800000000, Inception: 1700000000, KeyTag: uint16(i), SignerName: "example.", Signature: "c2ln"}
	case dns.TypeNSEC:
		return &dns.NSEC{Hdr: h, NextDomain: "z.example.", TypeBitMap: []uint16{dns.TypeA}}
	case dns.TypeNSEC3:
		return &dns.NSEC3{Hdr: h, Hash: 1, HashLength: 20, NextDomain: "2T7B4G4VSA5SMI47K61MV5BV1A22BOJR", TypeBitMap: []uint16{dns.TypeA}}
	}
	return &dns.TXT{Hdr: dns.RR_Header{Name: owner, Rrtype: dns.TypeTXT, Class: dns.ClassINET, Ttl: 60}, Txt: []string{"t"}}
}

func parseTypes(s string) []uint16 {
	if s == "-" {
		return nil
	}
	var out []uint16
	for _, x := range strings.Split(s, ",") {
		out = append(out, uint16(vlib.Atoi(x)))
	}
	return out
}

// `cache flags qd=<n> qt=<type> rc=<rcode> an=<types> ns=<types> ar=<n>`: prepareWireServe's verdict on the
// library's encoding of such a body.
func execCacheFlags(f []string) vlib.Res {
	arg := func(i int, k string) string { return strings.TrimPrefix(f[i], k+"=") }
	qd, qt, rc := vlib.Atoi(arg(2, "qd")), uint16(vlib.Atoi(arg(3, "qt"))), vlib.Atoi(arg(4, "rc"))
	m := new(dns.Msg)
	m.Id, m.Response, m.Rcode, m.Compress = 9, true, rc, true
	for i := 0; i < qd; i++ {
		m.Question = append(m.Question, dns.Question{Name: "flags.example.", Qtype: qt, Qclass: dns.ClassINET})
	}
	for i, t := range parseTypes(arg(5, "an")) {
		m.Answer = append(m.Answer, rrOfType(t, "flags.example.", i))
	}
	for i, t := range parseTypes(arg(6, "ns")) {
		m.Ns = append(m.Ns, rrOfType(t, "example.", 50+i))
	}
	for i := 0; i < vlib.Atoi(arg(7, "ar")); i++ {
		m.Extra = append(m.Extra, rrOfType(vlib.Pick(vlib.NewR(uint64(i)), []uint16{dns.TypeA, dns.TypeRRSIG, dns.TypeAAAA}), "ns.example.", 90+i))
	}
	o := libPack(m)
	if o.kind != "ok" {
		return vlib.Res{Impl: "unpackable", Oracle: "FAIL sig=harness/flags-message-does-not-pack"}
	}
	el, sec, chase := cache.VerifC15WireFlags(o.b)
	// oracle: the documented rule, on the message itself
	wantSec := false
	hasQ, hasC := false, false
	for _, rr := range append(append([]dns.RR{}, m.Answer...), m.Ns...) {
		switch rr.Header().Rrtype {
		case dns.TypeRRSIG, dns.TypeNSEC, dns.TypeNSEC3:
			wantSec = true
		}
	}
	for _, rr := range m.Answer {
		hasQ = hasQ || rr.Header().Rrtype == qt
		hasC = hasC || rr.Header().Rrtype == dns.TypeCNAME
	}
	wantChase := rc == dns.RcodeNameError || qt == dns.TypeCNAME || qt == dns.TypeDS || hasQ || !hasC
	or := "ok"
	if qd != 1 {
		if el || sec || chase {
			or = "FAIL sig=flags/body-without-exactly-one-question-flagged"
		}
	} else if !el || sec != wantSec || chase != wantChase {
		or = fmt.Sprintf("FAIL sig=flags/verdict-differs-from-the-rule eligible=%v dnssec=%v/%v chase=%v/%v", el, sec, wantSec, chase, wantChase)
	}
	return vlib.Res{Impl: fmt.Sprintf("e=%s s=%s c=%s", vlib.B(el), vlib.B(sec), vlib.B(chase)), Oracle: or, Tags: "nt,flags"}
}

// `cache strip <answer kinds> <authority kinds>`: the DO=0 body admission prepares; kinds: t = a TXT record of
// the question's RRset, s = SOA, r = RRSIG, c = NSEC, 3 = NSEC3.
func execCacheStrip(an, ns string) vlib.Res {
	mkRR := func(k byte, i int) dns.RR {
		h := func(t uint16) dns.RR_Header {
			return dns.RR_Header{Name: "strip.example.", Rrtype: t, Class: dns.ClassINET, Ttl: 60}
		}
		switch k {
		case 'r':
			return &dns.RRSIG{Hdr: h(dns.TypeRRSIG), TypeCovered: dns.TypeTXT, Algorithm: 13, Labels: 2, OrigTtl: 60, Expiration: 1800000000, Inception: 1700000000, KeyTag: uint16(i), SignerName: "example.", Signature: "c2lnbmF0dXJl"}
		case 'c':
			return &dns.NSEC{Hdr: h(dns.TypeNSEC), NextDomain: "z.example.", TypeBitMap: []uint16{dns.TypeTXT, dns.TypeRRSIG, dns.TypeNSEC}}
		case '3':
			return &dns.NSEC3{Hdr: h(dns.TypeNSEC3), Hash: 1, Iterations: 0, SaltLength: 0, Salt: "", HashLength: 20, NextDomain: "2T7B4G4VSA5SMI47K61MV5BV1A22BOJR", TypeBitMap: []uint16{dns.TypeTXT}}
		case 's':
			return &dns.SOA{Hdr: h(dns.TypeSOA), Ns: "ns.example.", Mbox: "h.example.", Serial: uint32(i), Refresh: 2, Retry: 3, Expire: 4, Minttl: 5}
		}
		return &dns.TXT{Hdr: h(dns.TypeTXT), Txt: []string{fmt.Sprintf("t%d", i)}}
	}
	mk := func() *dns.Msg {
		m := new(dns.Msg)
		m.SetQuestion("strip.example.", dns.TypeTXT)
		m.Id = 5
		m.Response = true
		if an != "-" {
			for i := 0; i < len(an); i++ {
				m.Answer = append(m.Answer, mkRR(an[i], i))
			}
		}
		if ns != "-" {
			for i := 0; i < len(ns); i++ {
				m.Ns = append(m.Ns, mkRR(ns[i], 100+i))
			}
		}
		return m
	}
	under, pristine := mk(), mk()
	e := cache.NewCacheEntryWithKey(under, time.Minute, 0, 1)
	impl := "not-admitted"
	if e != nil {
		impl = "none"
		if b := cache.VerifC15EntryStripped(e); len(b) >= 12 {
			impl = fmt.Sprintf("an=%d ns=%d", int(b[6])<<8|int(b[7]), int(b[8])<<8|int(b[9]))
		}
	}
	or := "ok"
	if !unchanged(under, pristine) {
		or = "FAIL sig=stripped/message-mutated/" + mutationClass(under, pristine)
	}
	return vlib.Res{Impl: impl, Oracle: or, Tags: "nt,stripped"}
}

// `cache view <kinds>`: what admission keeps of an additional section.
func execCacheView(kinds string) vlib.Res {
	mk := func() *dns.Msg {
		m := new(dns.Msg)
		m.SetQuestion("view.example.", dns.TypeA)
		m.Id = 3
		m.Response = true
		if kinds != "-" {
			for i, k := range strings.Split(kinds, ",") {
				var rr dns.RR
				if k == "e" {
					o := optRec(0x8000)
					o.Option = []dns.EDNS0{&dns.EDNS0_EDE{InfoCode: 7, ExtraText: "x"}}
					rr = o
				} else {
					rr = kindRR(k)
				}
				if a, ok := rr.(*dns.A); ok && k == "a" {
					a.Hdr.Name = fmt.Sprintf("a%d.view.example.", i)
				}
				m.Extra = append(m.Extra, rr)
			}
		}
		return m
	}
	under, ref, pristine := mk(), mk(), mk()
	want := libPack(storableView(ref))
	got := admit(under, true)
	impl := "not-admitted"
	switch got.kind {
	case "panic":
		impl = "panic"
	case "ok":
		impl = fmt.Sprintf("ar=%d compress=t", int(got.b[10])<<8|int(got.b[11]))
	}
	if want.kind == "err" {
		want.msg = "not-admitted"
	}
	or := "ok"
	switch {
	case !same(got, want):
		or = fmt.Sprintf("FAIL sig=cache/stored-bytes-are-not-the-storable-view/view got=%s want=%s", got, want)
	case got.kind != "panic" && !unchanged(under, pristine):
		or = "FAIL sig=cache/message-mutated/" + mutationClass(under, pristine)
	}
	return vlib.Res{Impl: impl, Oracle: or, Tags: "nt,cache"}
}

// storableView is what cache admission documents it stores: header,
// question, answer, authority and the additional section without its OPT
// records, always compressed. Built here from an independent rebuild.
func storableView(m *dns.Msg) *dns.Msg {
	v := new(dns.Msg)
	v.MsgHdr = m.MsgHdr
	v.Question = m.Question
	v.Answer = m.Answer
	v.Ns = m.Ns
	for _, rr := range m.Extra {
		if _, ok := rr.(*dns.OPT); !ok {
			v.Extra = append(v.Extra, rr)
		}
	}
	v.Compress = true
	return v
}

// admit runs the real cache admission and reports it as an outcome.
func admit(m *dns.Msg, viaKey bool) (o outcome) {
	defer func() {
		if p := recover(); p != nil {
			o = outcome{kind: "panic", msg: fmt.Sprint(p)}
		}
	}()
	var e *cache.CacheEntry
	if viaKey {
		e = cache.NewCacheEntryWithKey(m, time.Minute, 0, 1)
	} else {
		e = cache.NewCacheEntry(m, time.Minute, 0)
	}
	if e == nil {
		return outcome{kind: "err", msg: "not-admitted"}
	}
	return outcome{kind: "ok", b: cache.VerifC15EntryWire(e)}
}

// the bytes a cache entry keeps: NewCacheEntry / NewCacheEntryWithKey on the
// current message vs the library's Pack of the storable view.
func execCache() vlib.Res {
	if cur == nil {
		return vlib.Res{Impl: "bad-op"}
	}
	under, ref, pristine := rebuild(), rebuild(), rebuild()
	want := libPack(storableView(ref.m))
	if want.kind == "err" {
		want.msg = "not-admitted"
	}
	got := admit(under.m, curSeed%2 == 0)
	tags := []string{"nt", "cache"}
	if under.ulen() > wire.VerifPackBufferSize {
		tags = append(tags, "cache-big")
	}
	or := "ok"
	switch {
	case !same(got, want):
		cls := got.kind + "-vs-" + want.kind
		if got.kind == "ok" && want.kind == "ok" {
			cls = "bytes-differ/" + diffClass(got.b, want.b)
		}
		or = fmt.Sprintf("FAIL sig=cache/stored-bytes-are-not-the-storable-view/%s got=%s want=%s", cls, got, want)
	case got.kind != "panic" && !unchanged(under.m, pristine.m):
		or = "FAIL sig=cache/message-mutated/" + mutationClass(under.m, pristine.m)
	}
	return vlib.Res{Impl: got.String(), Oracle: or, Tags: strings.Join(tags, ",")}
}

// the DO=0 body an entry prepares at admission (prepareStripped): the library's encoding of the storable
// view with RRSIG/NSEC/NSEC3 removed from answer and authority — whether or not the pooled packer
// handled it — present exactly when the entry carries DNSSEC, the question is not RRSIG and that body is
// byte-servable (prepareWireServe's verdict on the LIBRARY's bytes).
func execStripped() vlib.Res {
	if cur == nil {
		return vlib.Res{Impl: "bad-op"}
	}
	under, ref, pristine := rebuild(), rebuild(), rebuild()
	view := storableView(ref.m)
	full := libPack(view)
	var e *cache.CacheEntry
	got := capture(func() ([]byte, error) {
		e = cache.NewCacheEntryWithKey(under.m, time.Minute, 0, 1)
		if e == nil {
			return nil, errors.New("not-admitted")
		}
		return cache.VerifC15EntryStripped(e), nil
	})
	if got.kind != "ok" || full.kind != "ok" {
		if (got.kind == "ok") != (full.kind == "ok") {
			return vlib.Res{Impl: got.kind, Oracle: "FAIL sig=stripped/admission-differs-from-library got=" + got.kind + " want=" + full.kind, Tags: "nt,stripped"}
		}
		return vlib.Res{Impl: got.kind, Oracle: "ok", Tags: "nt,stripped"}
	}
	var want []byte
	_, hasSec, _ := cache.VerifC15WireFlags(full.b)
	if hasSec && len(view.Question) > 0 && view.Question[0].Qtype != dns.TypeRRSIG {
		sv := *storableView(rebuild().m)
		drop := func(in []dns.RR) []dns.RR {
			var out []dns.RR
			for _, rr := range in {
				switch rr.(type) {
				case *dns.RRSIG, *dns.NSEC, *dns.NSEC3:
				default:
					out = append(out, rr)
				}
			}
			return out
		}
		sv.Answer, sv.Ns = drop(sv.Answer), drop(sv.Ns)
		sv.Compress = true
		if sp := libPack(&sv); sp.kind == "ok" {
			if el, sec, chase := cache.VerifC15WireFlags(sp.b); el && chase && !sec {
				want = sp.b
			}
		}
	}
	impl := "none"
	if got.b != nil {
		impl = fmt.Sprintf("stripped/%d", len(got.b))
	}
	or := "ok"
	switch {
	case want != nil && got.b == nil:
		or = fmt.Sprintf("FAIL sig=stripped/do0-body-missing want=%d bytes ulen-of-stripped-view>4096=%v", len(want), under.ulen() > 4096)
	case want == nil && got.b != nil:
		or = "FAIL sig=stripped/do0-body-present-where-none-is-due"
	case want != nil && !bytes.Equal(got.b, want):
		or = fmt.Sprintf("FAIL sig=stripped/do0-body-differs-from-library/%s got=%d want=%d", diffClass(got.b, want), len(got.b), len(want))
	case !unchanged(under.m, pristine.m):
		or = "FAIL sig=stripped/message-mutated/" + mutationClass(under.m, pristine.m)
	}
	tags := "nt,stripped"
	if want != nil {
		tags += ",stripped-due"
		if len(want) > 4096 || under.ulen() > 4500 {
			tags += ",stripped-big"
		}
	}
	return vlib.Res{Impl: impl, Oracle: or, Tags: tags}
}

// the same response admitted twice: as it is (pooled packer) and with one
// large trailing additional record that pushes it past the pooled buffer
// (library fallback). Apart from ARCOUNT and that record the stored bytes
// must be identical.
func execCachePair() vlib.Res {
	if cur == nil {
		return vlib.Res{Impl: "bad-op"}
	}
	small, big, pristine := rebuild(), rebuild(), rebuild()
	if !small.pure || small.ulen() > 3000 {
		return vlib.Res{Impl: "skipped"}
	}
	var txt []string
	for i := 0; i < 18; i++ {
		txt = append(txt, strings.Repeat("z", 250))
	}
	pad := &dns.TXT{Hdr: dns.RR_Header{Name: "pad.invalid.", Rrtype: dns.TypeTXT, Class: dns.ClassINET, Ttl: 1}, Txt: txt}
	big.m.Extra = append(big.m.Extra, pad)
	pristineBig := rebuild()
	pristineBig.m.Extra = append(pristineBig.m.Extra, dns.Copy(pad))
	a, b := admit(small.m, true), admit(big.m, true)
	or := "ok"
	switch {
	case a.kind != b.kind:
		or = fmt.Sprintf("FAIL sig=cachepair/admission-depends-on-size small=%s big=%s", a, b)
	case a.kind != "ok":
		or = "-"
	case len(b.b) < len(a.b) || !bytes.Equal(a.b[:10], b.b[:10]) || !bytes.Equal(a.b[12:], b.b[12:len(a.b)]):
		or = fmt.Sprintf("FAIL sig=cachepair/entry-differs-by-packer-path small=%d big=%d bytes", len(a.b), len(b.b))
	case int(b.b[10])<<8|int(b.b[11]) != (int(a.b[10])<<8|int(a.b[11]))+1:
		or = "FAIL sig=cachepair/additional-count"
	case !unchanged(small.m, pristine.m) || !unchanged(big.m, pristineBig.m):
		or = "FAIL sig=cachepair/message-mutated"
	}
	return vlib.Res{Impl: a.String() + "|" + b.String(), Oracle: or, Tags: "nt,cache"}
}

const sentinel = 0xA5

// a large message whose payload is the sentinel byte, packed through the
// REAL pooled path first, then the buffers resting in the pool are filled
// with it outright; the current message packed next must come out as from a
// fresh buffer and, read up to capacity, show nothing else.
func execDirty() vlib.Res {
	if cur == nil {
		return vlib.Res{Impl: "bad-op"}
	}
	big := new(dns.Msg)
	big.SetQuestion("big.example.", dns.TypeTXT)
	big.Id = 0xA5A5
	big.Response = true
	o := optRec(0)
	o.Option = []dns.EDNS0{&dns.EDNS0_PADDING{Padding: bytes.Repeat([]byte{sentinel}, 3900)}}
	big.Extra = []dns.RR{o}
	bigRes := runTryPack(big)
	wire.VerifPoisonPool(4, sentinel)

	under, ref := rebuild(), rebuild()
	want := libPack(ref.m)
	tp := runTryPack(under.m)
	or := "ok"
	switch {
	case !bigRes.handled:
		or = "FAIL sig=harness/sentinel-message-not-handled"
	case !tp.handled:
		or = "-"
	case want.kind != "ok":
		or = "FAIL sig=dirty/handled/library-refuses-this-message"
	case !bytes.Equal(tp.body[:tp.length], want.b):
		or = "FAIL sig=dirty/output-depends-on-pool-contents/" + diffClass(tp.body[:tp.length], want.b)
	case !bytes.Equal(tp.body, want.b):
		// read up to capacity: anything beyond the payload is somebody else's bytes
		leak := 0
		for _, c := range tp.body[tp.length:] {
			if c == sentinel {
				leak++
			}
		}
		or = fmt.Sprintf("FAIL sig=dirty/slice-exposes-old-bytes len=%d cap=%d sentinel-bytes=%d", tp.length, tp.capacity, leak)
	}
	impl := "handled=f"
	if tp.handled {
		impl = fmt.Sprintf("handled=t len=%d cap=%d", tp.length, tp.capacity)
	}
	return vlib.Res{Impl: impl, Oracle: or, Tags: "nt,dirty"}
}

// `pool reuse <seedA> <profileA> <seedB> <profileB>`: pack A (whatever becomes of it), then B
// through the state A left in the pool: B is the library's bytes and the pool is clean after each.
func execReuse(seedA uint64, profA string, seedB uint64, profB string) vlib.Res {
	wire.VerifPoolDrain(8)
	a := runTryPack(build(seedA, profA).m)
	afterA := wire.VerifInspectPool(2)
	want := libPack(build(seedB, profB).m)
	b := runTryPack(build(seedB, profB).m)
	afterB := wire.VerifInspectPool(2)
	or := "ok"
	switch {
	case a.panicked != "" || b.panicked != "":
		or = "FAIL sig=pool/reuse/trypack-panicked"
	case afterA != "clean":
		or = "FAIL sig=pool/release-left/" + inspectSig(afterA) + " " + afterA + " after a " + profA + " message"
	case b.handled && (want.kind != "ok" || !bytes.Equal(b.body[:b.length], want.b)):
		or = fmt.Sprintf("FAIL sig=pool/reuse/bytes-depend-on-the-previous-pack got=%d want=%s", b.length, want)
	case afterB != "clean":
		or = "FAIL sig=pool/release-left/" + inspectSig(afterB) + " " + afterB
	}
	tags := "nt,reuse"
	if a.handled && b.handled {
		tags += ",reuse-both-handled"
	}
	return vlib.Res{Impl: fmt.Sprintf("a=%s b=%s", vlib.B(a.handled), vlib.B(b.handled)), Oracle: or, Tags: tags}
}

func inspectSig(v string) string {
	if strings.HasPrefix(v, "dictionary-holds-") {
		return "dictionary-not-empty"
	}
	return v
}

func execInspect() vlib.Res {
	v := wire.VerifInspectPool(3)
	or := "ok"
	if v != "clean" {
		sig := v
		if strings.HasPrefix(v, "dictionary-holds-") {
			sig = "dictionary-not-empty" // the count goes into the detail, not the signature
		}
		or = "FAIL sig=pool/release-left/" + sig + " " + v
	}
	return vlib.Res{Impl: v, Oracle: or, Tags: "nt"}
}

// concurrent packs sharing the pool, each compared with the library; plus
// one message shared (read-only) by every goroutine.
func execConc(seed uint64, goroutines, iters int) vlib.Res {
	profiles := []string{"plain", "types", "size", "names", "rcode", "optmix"}
	shared := build(seed, "types")
	sharedWant := libPack(build(seed, "types").m)
	sharedPristine := build(seed, "types")
	var mu sync.Mutex
	fail := ""
	report := func(s string) {
		mu.Lock()
		if fail == "" {
			fail = s
		}
		mu.Unlock()
	}
	var wg sync.WaitGroup
	for g := 0; g < goroutines; g++ {
		wg.Add(1)
		go func(g int) {
			defer wg.Done()
			defer func() {
				if p := recover(); p != nil {
					report("FAIL sig=conc/panic " + fmt.Sprint(p))
				}
			}()
			for i := 0; i < iters; i++ {
				s := seed*1000003 + uint64(g)*7919 + uint64(i)
				p := profiles[(g+i)%len(profiles)]
				under, ref, pristine := build(s, p), build(s, p), build(s, p)
				want := libPack(ref.m)
				tp := runTryPack(under.m)
				switch {
				case tp.handled && (want.kind != "ok" || !bytes.Equal(tp.body[:tp.length], want.b)):
					report(fmt.Sprintf("FAIL sig=conc/handled/bytes-differ seed=%d profile=%s", s, p))
				case tp.handled && tp.capacity != tp.length:
					report("FAIL sig=conc/capacity-exposes-pool")
				case !tp.handled && tp.calls != 0:
					report("FAIL sig=conc/declined/output-already-produced")
				case !unchanged(under.m, pristine.m):
					report("FAIL sig=conc/message-mutated/" + mutationClass(under.m, pristine.m))
				}
				if i%4 == 0 {
					tp := runTryPack(shared.m)
					if tp.handled && (sharedWant.kind != "ok" || !bytes.Equal(tp.body[:tp.length], sharedWant.b)) {
						report("FAIL sig=conc/shared-message/bytes-differ")
					}
					if got := capture(func() ([]byte, error) { return wire.PackClone(shared.m) }); !same(got, sharedWant) {
						report("FAIL sig=conc/shared-message/clone-differs")
					}
				}
			}
		}(g)
	}
	wg.Wait()
	if fail == "" && !unchanged(shared.m, sharedPristine.m) {
		fail = "FAIL sig=conc/shared-message/mutated/" + mutationClass(shared.m, sharedPristine.m)
	}
	if fail == "" {
		fail = "ok"
	}
	return vlib.Res{Impl: "done", Oracle: fail, Tags: "nt,conc"}
}

// ---------------------------------------------------------------- gen

func flagsStr(v int) string {
	var sb strings.Builder
	for i := 7; i >= 0; i-- {
		if v>>uint(i)&1 == 1 {
			sb.WriteByte('t')
		} else {
			sb.WriteByte('f')
		}
	}
	return sb.String()
}

var profiles = []string{"plain", "plain", "types", "types", "optmix", "bad", "rcode", "names", "size", "size", "qcount", "zero", "hdr", "svcbopt", "bigopt", "cdn", "cdn", "manynames", "skipwrite", "signed", "signed"}

func gen(r *vlib.R, n int, tier string, emit func(string)) {
	count := 0
	e := func(s string) { emit(s); count++ }
	// every header flag combination, with boundary and random opcodes / rcodes
	opcodes := []int{0, 1, 2, 4, 5, 8, 15, 16, 31, 32, -1, 65535, 65536}
	rcodes := []int{0, 1, 2, 3, 5, 8, 15, 16, 17, 255, 256, 2048, 4095, 4096, -1, 23}
	for v := 0; v < 256; v++ {
		e(fmt.Sprintf("hdr bits %s %d %d", flagsStr(v), vlib.Pick(r, opcodes), vlib.Pick(r, rcodes)))
		if r.Chance(1, 2) {
			e(fmt.Sprintf("hdr bits %s %d %d", flagsStr(v), r.Intn(16), r.Intn(4096)))
		}
	}
	for _, o := range opcodes {
		for _, rc := range rcodes {
			e(fmt.Sprintf("hdr bits %s %d %d", flagsStr(r.Intn(256)), o, rc))
		}
	}
	// OPT selection: every list of up to 4 kinds (thorough: 5), plus random longer ones
	kinds := []string{"n", "a", "o", "w", "x"}
	maxLen := 3
	if tier == "thorough" {
		maxLen = 5
	}
	e("opt select -")
	var rec func(prefix []string)
	rec = func(prefix []string) {
		if len(prefix) > 0 {
			e("opt select " + strings.Join(prefix, ","))
		}
		if len(prefix) == maxLen {
			return
		}
		for _, k := range kinds {
			rec(append(append([]string(nil), prefix...), k))
		}
	}
	rec(nil)
	for i := 0; i < 60; i++ {
		l := 4 + r.Intn(6)
		var ks []string
		for j := 0; j < l; j++ {
			ks = append(ks, vlib.Pick(r, []string{"a", "a", "o", "o", "x", "a", "w", "n"}[:6+r.Intn(3)]))
		}
		e("opt select " + strings.Join(ks, ","))
	}
	// what admission keeps of an additional section: every shape of up to 3 (thorough 4) records
	vk := []string{"n", "a", "o", "w", "x", "e"}
	var recv func(prefix []string)
	vmax := 3
	if tier == "thorough" {
		vmax = 4
	}
	e("cache view -")
	recv = func(prefix []string) {
		if len(prefix) > 0 {
			e("cache view " + strings.Join(prefix, ","))
		}
		if len(prefix) == vmax {
			return
		}
		for _, k := range vk {
			recv(append(append([]string(nil), prefix...), k))
		}
	}
	recv(nil)
	// prepareWireServe's verdict: question counts, the question types it singles out, both rcodes it tells apart,
	// answer/authority type lists over {A, CNAME, SOA, TXT, DS, RRSIG, NSEC, NSEC3}
	ft := []string{"1", "5", "6", "16", "43", "46", "47", "50"}
	nFlags := 250
	if tier == "thorough" {
		nFlags = 6000
	}
	for i := 0; i < nFlags; i++ {
		list := func(max int) string {
			n := r.Intn(max + 1)
			if n == 0 {
				return "-"
			}
			var xs []string
			for k := 0; k < n; k++ {
				xs = append(xs, vlib.Pick(r, ft))
			}
			return strings.Join(xs, ",")
		}
		e(fmt.Sprintf("cache flags qd=%d qt=%s rc=%d an=%s ns=%s ar=%d", vlib.Pick(r, []int{1, 1, 1, 1, 1, 0, 2}), vlib.Pick(r, ft),
			vlib.Pick(r, []int{0, 0, 3, 2}), list(3), list(2), r.Intn(3)))
	}
	// the DO=0 body: every answer/authority shape of up to 3+2 records over {TXT, SOA, RRSIG, NSEC, NSEC3}
	sk := []string{"t", "r", "c", "3", "s"}
	for _, a := range []string{"-", "t", "r", "tr", "tt", "trt", "rtr", "tc", "t3r", "ttr"} {
		for _, n1 := range append([]string{"-"}, sk...) {
			e("cache strip " + a + " " + n1)
			if n1 != "-" && r.Chance(1, 2) {
				e("cache strip " + a + " " + n1 + vlib.Pick(r, sk))
			}
		}
	}
	// extended rcode rewrite: boundary TTLs x boundary rcodes, then random
	ttls := []uint32{0, 0x8000, 0x00FFFFFF, 0x01000000, 0xFF000000, 0xFFFFFFFF, 0xAB008000, 0x00010000}
	for _, t := range ttls {
		for _, rc := range []int{0, 1, 15, 16, 17, 31, 32, 255, 256, 1000, 4080, 4095} {
			e(fmt.Sprintf("opt ttl %08x %d", t, rc))
		}
	}
	for i := 0; i < 100; i++ {
		e(fmt.Sprintf("opt ttl %08x %d", uint32(r.U64()), r.Intn(4096)))
	}
	// what one pack leaves behind for the next one through the same pooled state
	for i := 0; i < 60; i++ {
		e(fmt.Sprintf("pool reuse %d %s %d %s", r.U64()%1000000007, vlib.Pick(r, []string{"manynames", "manynames", "manynames", "names", "types", "cdn", "bad", "rcode"}),
			r.U64()%1000000007, vlib.Pick(r, []string{"plain", "cdn", "names", "manynames", "types"})))
	}
	// ownership of the pooled state across every way a pack can end
	genOwn(r, tier, e)
	// messages
	for count < n {
		seed := r.U64() % 1000000007
		p := vlib.Pick(r, profiles)
		e(fmt.Sprintf("msg new %d %s", seed, p))
		b := build(seed, p)
		e("msg decide " + describe(b))
		e("msg pack")
		e("msg clone")
		if r.Chance(1, 2) {
			dp, in := "t", "f"
			switch r.Intn(8) {
			case 0:
				dp = "f"
			case 1:
				in = "t"
			}
			e(fmt.Sprintf("msg write %s %s lib=%s", dp, in, libPack(build(seed, p).m)))
		}
		if r.Chance(1, 2) {
			dp := "t"
			if r.Chance(1, 6) {
				dp = "f"
			}
			b := build(seed, p)
			e(fmt.Sprintf("msg serve %s %s %s lib=%s ulen=%d", vlib.Pick(r, []string{"ub", "ub", "ub", "ud", "ts", "tl"}), dp,
				vlib.Pick(r, []string{"-", "-", "abort", "abort", "abort2", "commit"}), libPack(build(seed, p).m), b.ulen()))
		}
		if r.Chance(1, 5) {
			e("msg fingerprint")
		}
		if r.Chance(1, 5) {
			e(fmt.Sprintf("msg doh %s lib=%s", vlib.Pick(r, []string{"get", "post"}), libPack(build(seed, p).m)))
		}
		if r.Chance(1, 6) {
			zid := build(seed, p).m
			zid.Id = 0
			e("msg doq lib=" + libPack(zid).String())
		}
		if r.Chance(1, 4) {
			e("lib room")
		}
		if r.Chance(1, 2) {
			e("msg cache")
		}
		if r.Chance(1, 8) {
			e("msg cachepair")
		}
		if p == "signed" || r.Chance(1, 10) {
			e("msg stripped")
		}
		if r.Chance(1, 4) {
			e("pool dirty")
		}
		if r.Chance(1, 3) {
			e("msg pack") // again, on whatever state the pool hands out now
			e("pool inspect")
		}
	}
	if tier == "thorough" {
		for i := 0; i < 12; i++ {
			e(fmt.Sprintf("conc run %d %d %d", r.U64()%1000003, 4+r.Intn(12), 200))
		}
	} else {
		e(fmt.Sprintf("conc run %d 6 40", r.U64()%1000003))
	}
}

// ---------------------------------------------------------------- facts

func facts() map[string]any {
	single := []*dns.Msg{
		{}, {MsgHdr: dns.MsgHdr{Response: true}}, {MsgHdr: dns.MsgHdr{Authoritative: true}}, {MsgHdr: dns.MsgHdr{Truncated: true}},
		{MsgHdr: dns.MsgHdr{RecursionDesired: true}}, {MsgHdr: dns.MsgHdr{RecursionAvailable: true}}, {MsgHdr: dns.MsgHdr{Zero: true}},
		{MsgHdr: dns.MsgHdr{AuthenticatedData: true}}, {MsgHdr: dns.MsgHdr{CheckingDisabled: true}},
	}
	for _, o := range []int{1, 2, 4, 8, 16, 32} {
		single = append(single, &dns.Msg{MsgHdr: dns.MsgHdr{Opcode: o}})
	}
	for _, rc := range []int{1, 2, 4, 8, 16, 2048, 4095} {
		single = append(single, &dns.Msg{MsgHdr: dns.MsgHdr{Rcode: rc}})
	}
	var mine, lib []int
	for _, m := range single {
		mine = append(mine, int(wire.VerifMsgBits(m)))
		ref := &dns.Msg{MsgHdr: m.MsgHdr}
		if ref.Rcode > 15 {
			ref.Extra = []dns.RR{optRec(0)}
		}
		o := libPack(ref)
		if o.kind == "ok" {
			lib = append(lib, int(o.b[2])<<8|int(o.b[3]))
		} else {
			lib = append(lib, 99999)
		}
	}
	own := ownFacts()
	lf := libFacts()
	return map[string]any{
		"write_while_borrowed":           writeWhileBorrowed(),
		"release_clean_after_names":      releaseFacts(),
		"lib_mono_violations":            lf[0],
		"lib_hroom_violations":           lf[1],
		"lib_sample_records":             lf[2],
		"lib_sample_messages":            lf[3],
		"lib_writesall_violations":       lf[4],
		"admission_of_skipwriters":       admissionOfSkipWriters(),
		"puts_after_ok":                  own["puts_after_ok"],
		"puts_after_err":                 own["puts_after_err"],
		"puts_after_panic":               own["puts_after_panic"],
		"puts_after_fail":                own["puts_after_fail"],
		"puts_after_werr":                own["puts_after_werr"],
		"pack_buffer_size":               wire.VerifPackBufferSize,
		"header_len":                     wire.VerifHeaderLen,
		"max_pooled_compression_entries": wire.VerifMaxPooledCompressionEntries,
		"type_opt":                       int(dns.TypeOPT),
		"msgbits_single":                 mine,
		"libbits_single":                 lib,
	}
}

var _ = context.Background

func main() { vlib.Main(&vlib.Driver{Facts: facts, Exec: exec, Gen: gen}) }
