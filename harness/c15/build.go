//go:build verif

package main

import (
	"encoding/base64"
	"encoding/hex"
	"fmt"
	"net"
	"reflect"
	"sort"
	"strconv"
	"strings"
	"sync/atomic"

	"github.com/miekg/dns"
	"github.com/semihalev/sdns/internal/verif/vlib"
	"github.com/semihalev/sdns/internal/wire"
)

// built is one generated message plus what the builder knows about it.
// build is a PURE function of (seed, profile): calling it again yields an
// independent deep copy with the same aliasing, nil records and foreign types.
type built struct {
	m     *dns.Msg
	kinds [3][]string // per slot: a | f | s | n | o<id> | w | x<id>
	skips bool        // holds a record whose library packing skips bytes without writing them (16-byte non-IPv4 in an A/L32/gateway)
	pure  bool        // only non-nil records of library types with library-owned nested values
	prof  string
}

func (b *built) class() string { return "p-" + b.prof }

func (b *built) ulen() int {
	defer func() { _ = recover() }()
	c := *b.m
	c.Compress = false
	return c.Len()
}

// foreignRR is a type declared outside the library that satisfies dns.RR
// through promotion.
type foreignRR struct{ dns.RR }

// foreignOption / foreignSVCB: the same for the two interface-valued nested fields.
type foreignOption struct{ dns.EDNS0 }
type foreignSVCB struct{ dns.SVCBKeyValue }

// foreignCalls counts every call into code declared outside the library that
// the wrappers below can observe (the pooled packer must never make one).
var foreignCalls int64

func (f foreignRR) Header() *dns.RR_Header { atomic.AddInt64(&foreignCalls, 1); return f.RR.Header() }
func (f foreignOption) Option() uint16     { atomic.AddInt64(&foreignCalls, 1); return f.EDNS0.Option() }
func (f foreignSVCB) Key() dns.SVCBKey {
	atomic.AddInt64(&foreignCalls, 1)
	return f.SVCBKeyValue.Key()
}

type privData struct{ s string }

func (p *privData) String() string             { return p.s }
func (p *privData) Parse(t []string) error     { p.s = strings.Join(t, " "); return nil }
func (p *privData) Pack(b []byte) (int, error) { return copy(b, p.s), nil }
func (p *privData) Unpack(b []byte) (int, error) {
	p.s = string(b)
	return len(b), nil
}
func (p *privData) Copy(d dns.PrivateRdata) error { d.(*privData).s = p.s; return nil }
func (p *privData) Len() int                      { atomic.AddInt64(&foreignCalls, 1); return len(p.s) }

const typePrivate = 65281

func init() {
	dns.PrivateHandle("VERIFPRIV", typePrivate, func() dns.PrivateRdata { return &privData{} })
}

type bld struct {
	r     *vlib.R
	names []string
	b     *built
	optID int
}

func label(r *vlib.R, n int) string {
	const alpha = "abcdefghijklmnopqrstuvwxyz0123456789-ABCXYZ"
	var sb strings.Builder
	for i := 0; i < n; i++ {
		sb.WriteByte(alpha[r.Intn(len(alpha))])
	}
	return sb.String()
}

// wireLen of a presentation name built from plain labels.
func plainWireLen(name string) int {
	if name == "." {
		return 1
	}
	return len(name) + 1
}

// longName: a name whose wire length is exactly target (labels <= 63), ending in suffix.
func longName(r *vlib.R, target int, suffix string) string {
	rest := target - plainWireLen(suffix)
	var labels []string
	for rest > 0 {
		l := 63
		if rest-1 < l {
			l = rest - 1
		}
		if l <= 0 {
			break
		}
		if rest-1-l == 1 { // would leave room for an empty label only
			l--
		}
		labels = append(labels, label(r, l))
		rest -= l + 1
	}
	if suffix == "." {
		return strings.Join(labels, ".") + "."
	}
	return strings.Join(labels, ".") + "." + suffix
}

func (g *bld) name() string {
	r := g.r
	if len(g.names) == 0 {
		g.names = append(g.names, vlib.Pick(r, []string{"example.com.", "Example.ORG.", "a.b.c.d.e.f.example.net.", "xn--nxasmq6b.test.", "."}))
	}
	base := vlib.Pick(r, g.names)
	var n string
	switch k := r.Intn(20); {
	case k < 6:
		n = base
	case k < 11:
		n = label(r, 1+r.Intn(12)) + "." + strings.TrimPrefix(base, ".")
		if base == "." {
			n = label(r, 1+r.Intn(12)) + "."
		}
	case k < 13: // same suffix, other case (compression is case sensitive in the library)
		n = strings.ToUpper(base)
	case k < 14: // long, up to the 255 octet limit (and sometimes past it)
		n = longName(r, vlib.Pick(r, []int{200, 250, 253, 254, 255, 255, 256, 257}), vlib.Pick(r, []string{"example.com.", base, "."}))
	case k < 15: // 63 / 64 octet label
		n = label(r, vlib.Pick(r, []int{62, 63, 63, 64})) + ".example.com."
	case k < 17: // escapes
		n = vlib.Pick(r, []string{`a\.b.example.com.`, `\065bc.example.com.`, `x\000y.example.com.`, `sp\ ace.example.com.`, `\255\254.example.com.`, `semi\;colon.example.com.`, `q\"uote.example.com.`}) //nolint
	case k < 18:
		n = vlib.Pick(r, []string{".", "com.", "example.com."})
	default:
		n = label(r, 3) + "." + label(r, 5) + ".example.com."
	}
	if len(plainLabels(n)) > 0 && len(g.names) < 24 {
		g.names = append(g.names, n)
	}
	return n
}

func plainLabels(n string) []string { return strings.Split(strings.TrimSuffix(n, "."), ".") }

func (g *bld) badName() string {
	return vlib.Pick(g.r, []string{"nofqdn", "", "double..dot.example.", "trailing\\", label(g.r, 64) + ".example.", longName(g.r, 300, "example.com.")})
}

func (g *bld) hdr(name string, t uint16) dns.RR_Header {
	cl := uint16(dns.ClassINET)
	if g.r.Chance(1, 30) {
		cl = vlib.Pick(g.r, []uint16{dns.ClassCHAOS, dns.ClassANY, dns.ClassNONE, 0, 65535})
	}
	return dns.RR_Header{Name: name, Rrtype: t, Class: cl, Ttl: vlib.Pick(g.r, []uint32{0, 1, 60, 300, 86400, 0x7FFFFFFF, 0xFFFFFFFF, uint32(g.r.U64())}),
		Rdlength: vlib.Pick(g.r, []uint16{0, 0, 4, 999})}
}

func b64(r *vlib.R, n int) string { return base64.StdEncoding.EncodeToString(r.Bytes(n)) }
func hx(r *vlib.R, n int) string  { return hex.EncodeToString(r.Bytes(n)) }

func ip4(r *vlib.R) net.IP { return net.IP(r.Bytes(4)) }
func ip6(r *vlib.R) net.IP { return net.IP(r.Bytes(16)) }

func (g *bld) typeBitmap() []uint16 {
	all := []uint16{dns.TypeA, dns.TypeNS, dns.TypeSOA, dns.TypeMX, dns.TypeTXT, dns.TypeAAAA, dns.TypeRRSIG, dns.TypeNSEC, dns.TypeDNSKEY, dns.TypeCAA, 1234, 65280}
	var out []uint16
	for _, t := range all {
		if g.r.Chance(1, 2) {
			out = append(out, t)
		}
	}
	return out
}

func (g *bld) svcbValues() []dns.SVCBKeyValue {
	r := g.r
	var out []dns.SVCBKeyValue
	if r.Chance(1, 4) {
		out = append(out, &dns.SVCBMandatory{Code: []dns.SVCBKey{dns.SVCB_ALPN, dns.SVCB_PORT}})
	}
	if r.Chance(2, 3) {
		out = append(out, &dns.SVCBAlpn{Alpn: vlib.Pick(r, [][]string{{"h2"}, {"h3", "h2"}, {"h2", "http/1.1", "h3"}, {`a\,b`, "c"}, {}})})
	}
	if r.Chance(1, 4) {
		out = append(out, &dns.SVCBNoDefaultAlpn{})
	}
	if r.Chance(1, 2) {
		out = append(out, &dns.SVCBPort{Port: uint16(r.U64())})
	}
	if r.Chance(1, 2) {
		out = append(out, &dns.SVCBIPv4Hint{Hint: []net.IP{ip4(r), ip4(r)}[:1+r.Intn(2)]})
	}
	if r.Chance(1, 3) {
		out = append(out, &dns.SVCBECHConfig{ECH: r.Bytes(r.Intn(80))})
	}
	if r.Chance(1, 2) {
		out = append(out, &dns.SVCBIPv6Hint{Hint: []net.IP{ip6(r), ip6(r)}[:1+r.Intn(2)]})
	}
	if r.Chance(1, 4) {
		out = append(out, &dns.SVCBDoHPath{Template: "/dns-query{?dns}"})
	}
	if r.Chance(1, 6) {
		out = append(out, &dns.SVCBOhttp{})
	}
	if r.Chance(1, 3) {
		out = append(out, &dns.SVCBLocal{KeyCode: dns.SVCBKey(65280 + r.Intn(200)), Data: r.Bytes(r.Intn(20))})
	}
	return out
}

func (g *bld) ednsOptions() []dns.EDNS0 {
	r := g.r
	var out []dns.EDNS0
	add := func(o dns.EDNS0) { out = append(out, o) }
	if r.Chance(1, 2) {
		add(&dns.EDNS0_COOKIE{Code: dns.EDNS0COOKIE, Cookie: hx(r, vlib.Pick(r, []int{8, 16, 24, 32}))})
	}
	if r.Chance(1, 2) {
		if r.Bool() {
			add(&dns.EDNS0_SUBNET{Code: dns.EDNS0SUBNET, Family: 1, SourceNetmask: uint8(r.Intn(33)), SourceScope: uint8(r.Intn(33)), Address: ip4(r)})
		} else {
			add(&dns.EDNS0_SUBNET{Code: dns.EDNS0SUBNET, Family: 2, SourceNetmask: uint8(r.Intn(129)), SourceScope: 0, Address: ip6(r)})
		}
	}
	if r.Chance(1, 2) {
		add(&dns.EDNS0_EDE{InfoCode: uint16(r.Intn(30)), ExtraText: vlib.Pick(r, []string{"", "blocked", "DNSSEC validation failure: no SEP matching the DS found for example.com."})})
	}
	if r.Chance(1, 3) {
		add(&dns.EDNS0_PADDING{Padding: make([]byte, r.Intn(200))})
	}
	if r.Chance(1, 3) {
		add(&dns.EDNS0_NSID{Code: dns.EDNS0NSID, Nsid: hx(r, r.Intn(20))})
	}
	if r.Chance(1, 6) {
		add(&dns.EDNS0_TCP_KEEPALIVE{Code: dns.EDNS0TCPKEEPALIVE, Timeout: uint16(r.Intn(3)) * 100})
	}
	if r.Chance(1, 6) {
		add(&dns.EDNS0_LOCAL{Code: uint16(65001 + r.Intn(500)), Data: r.Bytes(r.Intn(30))})
	}
	if r.Chance(1, 8) {
		add(&dns.EDNS0_EXPIRE{Code: dns.EDNS0EXPIRE, Expire: uint32(r.U64()), Empty: r.Chance(1, 3)})
	}
	if r.Chance(1, 8) {
		add(&dns.EDNS0_DAU{Code: dns.EDNS0DAU, AlgCode: []uint8{8, 13, 15}})
		add(&dns.EDNS0_DHU{Code: dns.EDNS0DHU, AlgCode: []uint8{2}})
		add(&dns.EDNS0_N3U{Code: dns.EDNS0N3U, AlgCode: []uint8{1}})
	}
	if r.Chance(1, 10) {
		add(&dns.EDNS0_UL{Code: dns.EDNS0UL, Lease: 3600, KeyLease: uint32(r.Intn(2)) * 7200})
		add(&dns.EDNS0_LLQ{Code: dns.EDNS0LLQ, Version: 1, Id: r.U64(), LeaseLife: 60})
	}
	if r.Chance(1, 10) {
		add(&dns.EDNS0_ESU{Code: dns.EDNS0ESU, Uri: "sip:+123@example.com"})
	}
	if r.Chance(1, 12) {
		add(&dns.EDNS0_NSID{Code: dns.EDNS0NSID, Nsid: "zz-not-hex"}) // packs with an error in the library
	}
	return out
}

func (g *bld) opt() *dns.OPT {
	r := g.r
	o := &dns.OPT{Hdr: dns.RR_Header{Name: ".", Rrtype: dns.TypeOPT, Class: vlib.Pick(r, []uint16{512, 1232, 4096, 65535}),
		Ttl: vlib.Pick(r, []uint32{0, 0x8000, 0x00FFFFFF, 0xFF000000, 0x12008000, uint32(r.U64())})}}
	if r.Chance(2, 3) {
		o.Option = g.ednsOptions()
	}
	if r.Chance(1, 25) {
		o.Hdr.Name = "opt.example.com." // owner other than root: still packs
	}
	return o
}

// rr: one ordinary (admissible) record of a random library type.
func (g *bld) rr(owner string) dns.RR {
	r := g.r
	switch r.Intn(34) {
	case 0, 1, 2:
		return &dns.A{Hdr: g.hdr(owner, dns.TypeA), A: ip4(r)}
	case 3, 4:
		return &dns.AAAA{Hdr: g.hdr(owner, dns.TypeAAAA), AAAA: ip6(r)}
	case 5:
		return &dns.NS{Hdr: g.hdr(owner, dns.TypeNS), Ns: g.name()}
	case 6, 7:
		return &dns.CNAME{Hdr: g.hdr(owner, dns.TypeCNAME), Target: g.name()}
	case 8:
		return &dns.SOA{Hdr: g.hdr(owner, dns.TypeSOA), Ns: g.name(), Mbox: g.name(), Serial: uint32(r.U64()), Refresh: 7200, Retry: 3600, Expire: 1209600, Minttl: 300}
	case 9:
		return &dns.MX{Hdr: g.hdr(owner, dns.TypeMX), Preference: uint16(r.Intn(100)), Mx: g.name()}
	case 10:
		txt := [][]string{{"v=spf1 -all"}, {"", "x"}, {strings.Repeat("t", 255), "tail"}, {`with "quotes" and \ backslash`}, {"\x00\x01\xfe\xff"}, {}}
		return &dns.TXT{Hdr: g.hdr(owner, dns.TypeTXT), Txt: vlib.Pick(r, txt)}
	case 11:
		return &dns.SRV{Hdr: g.hdr(owner, dns.TypeSRV), Priority: 1, Weight: uint16(r.Intn(100)), Port: uint16(r.U64()), Target: g.name()}
	case 12:
		return &dns.DS{Hdr: g.hdr(owner, dns.TypeDS), KeyTag: uint16(r.U64()), Algorithm: 13, DigestType: 2, Digest: hx(r, 32)}
	case 13:
		return &dns.DNSKEY{Hdr: g.hdr(owner, dns.TypeDNSKEY), Flags: vlib.Pick(r, []uint16{256, 257}), Protocol: 3, Algorithm: vlib.Pick(r, []uint8{8, 13, 15}), PublicKey: b64(r, vlib.Pick(r, []int{32, 64, 65, 66, 130, 260}))}
	case 14, 15:
		return &dns.RRSIG{Hdr: g.hdr(owner, dns.TypeRRSIG), TypeCovered: dns.TypeA, Algorithm: 13, Labels: 2, OrigTtl: 300, Expiration: 1800000000, Inception: 1700000000, KeyTag: uint16(r.U64()), SignerName: g.name(), Signature: b64(r, vlib.Pick(r, []int{64, 63, 65, 128, 256}))}
	case 16:
		return &dns.NSEC{Hdr: g.hdr(owner, dns.TypeNSEC), NextDomain: g.name(), TypeBitMap: g.typeBitmap()}
	case 17:
		return &dns.NSEC3{Hdr: g.hdr(owner, dns.TypeNSEC3), Hash: 1, Flags: uint8(r.Intn(2)), Iterations: uint16(r.Intn(20)), SaltLength: 4, Salt: hx(r, 4), HashLength: 20, NextDomain: "2T7B4G4VSA5SMI47K61MV5BV1A22BOJR", TypeBitMap: g.typeBitmap()}
	case 18:
		return &dns.NSEC3PARAM{Hdr: g.hdr(owner, dns.TypeNSEC3PARAM), Hash: 1, Iterations: 0, SaltLength: 0, Salt: ""}
	case 19, 20:
		return &dns.SVCB{Hdr: g.hdr(owner, dns.TypeSVCB), Priority: uint16(r.Intn(3)), Target: g.name(), Value: g.svcbValues()}
	case 21, 22:
		return &dns.HTTPS{SVCB: dns.SVCB{Hdr: g.hdr(owner, dns.TypeHTTPS), Priority: uint16(r.Intn(3)), Target: g.name(), Value: g.svcbValues()}}
	case 23:
		return &dns.CAA{Hdr: g.hdr(owner, dns.TypeCAA), Flag: 128, Tag: "issue", Value: "letsencrypt.org"}
	case 24:
		return &dns.TLSA{Hdr: g.hdr(owner, dns.TypeTLSA), Usage: 3, Selector: 1, MatchingType: 1, Certificate: hx(r, 32)}
	case 25:
		return &dns.NAPTR{Hdr: g.hdr(owner, dns.TypeNAPTR), Order: 100, Preference: 10, Flags: "S", Service: "SIP+D2U", Regexp: "", Replacement: g.name()}
	case 26:
		return &dns.PTR{Hdr: g.hdr(owner, dns.TypePTR), Ptr: g.name()}
	case 27:
		return &dns.DNAME{Hdr: g.hdr(owner, dns.TypeDNAME), Target: g.name()}
	case 28:
		return &dns.RFC3597{Hdr: g.hdr(owner, uint16(65300+r.Intn(100))), Rdata: hx(r, r.Intn(40))}
	case 29:
		return &dns.HINFO{Hdr: g.hdr(owner, dns.TypeHINFO), Cpu: "RFC8482", Os: ""}
	case 30:
		return &dns.SSHFP{Hdr: g.hdr(owner, dns.TypeSSHFP), Algorithm: 4, Type: 2, FingerPrint: hx(r, 32)}
	case 31:
		return &dns.URI{Hdr: g.hdr(owner, dns.TypeURI), Priority: 10, Weight: 1, Target: "https://example.com/path"}
	case 32:
		return &dns.CDS{DS: dns.DS{Hdr: g.hdr(owner, dns.TypeCDS), KeyTag: 1, Algorithm: 13, DigestType: 2, Digest: hx(r, 32)}}
	default:
		return &dns.RP{Hdr: g.hdr(owner, dns.TypeRP), Mbox: g.name(), Txt: g.name()}
	}
}

// inadmissible: a slot the pooled packer must refuse (kind f or n).
func (g *bld) inadmissible() (dns.RR, string) {
	r := g.r
	switch r.Intn(10) {
	case 0, 1:
		return nil, "n"
	case 2:
		return foreignRR{&dns.A{Hdr: g.hdr(g.name(), dns.TypeA), A: ip4(r)}}, "f"
	case 3:
		return &foreignRR{&dns.TXT{Hdr: g.hdr(g.name(), dns.TypeTXT), Txt: []string{"foreign"}}}, "f"
	case 4:
		return &dns.PrivateRR{Hdr: g.hdr(g.name(), typePrivate), Data: &privData{s: "private-bytes"}}, "f"
	case 5:
		return (*dns.A)(nil), "f"
	case 6:
		o := g.opt()
		o.Option = append(o.Option, foreignOption{&dns.EDNS0_PADDING{Padding: []byte{1, 2, 3}}})
		return o, "f"
	case 7:
		o := g.opt()
		o.Option = append([]dns.EDNS0{nil}, o.Option...)
		return o, "f"
	case 8:
		return &dns.SVCB{Hdr: g.hdr(g.name(), dns.TypeSVCB), Priority: 1, Target: g.name(), Value: []dns.SVCBKeyValue{&dns.SVCBPort{Port: 443}, foreignSVCB{&dns.SVCBAlpn{Alpn: []string{"h2"}}}}}, "f"
	default:
		return &dns.HTTPS{SVCB: dns.SVCB{Hdr: g.hdr(g.name(), dns.TypeHTTPS), Priority: 1, Target: ".", Value: []dns.SVCBKeyValue{nil}}}, "f"
	}
}

func (g *bld) put(sec int, rr dns.RR, kind string) {
	switch sec {
	case 0:
		g.b.m.Answer = append(g.b.m.Answer, rr)
	case 1:
		g.b.m.Ns = append(g.b.m.Ns, rr)
	default:
		g.b.m.Extra = append(g.b.m.Extra, rr)
	}
	g.b.kinds[sec] = append(g.b.kinds[sec], kind)
	if kind == "f" || kind == "n" || kind == "s" {
		g.b.pure = false // outside what the packer admits: the fallback keeps the library's semantics, OPT write included
	}
}

func (g *bld) newOPT(sec int) *dns.OPT {
	o := g.opt()
	g.optID++
	g.put(sec, o, "o"+strconv.Itoa(g.optID))
	return o
}

func (g *bld) question() dns.Question {
	return dns.Question{Name: g.name(), Qtype: vlib.Pick(g.r, []uint16{dns.TypeA, dns.TypeAAAA, dns.TypeMX, dns.TypeHTTPS, dns.TypeANY, 0, 65535}), Qclass: vlib.Pick(g.r, []uint16{dns.ClassINET, dns.ClassCHAOS, dns.ClassANY})}
}

func (g *bld) header() {
	r, m := g.r, g.b.m
	m.Id = uint16(r.U64())
	v := r.Intn(256)
	m.Response, m.Authoritative, m.Truncated, m.RecursionDesired = v&1 != 0, v&2 != 0, v&4 != 0, v&8 != 0
	m.RecursionAvailable, m.Zero, m.AuthenticatedData, m.CheckingDisabled = v&16 != 0, v&32 != 0, v&64 != 0, v&128 != 0
	m.Opcode = vlib.Pick(r, []int{0, 0, 0, 1, 2, 4, 5, 15, 16, 31})
	m.Rcode = vlib.Pick(r, []int{0, 0, 0, 2, 3, 5, 9, 15})
	m.Compress = r.Chance(2, 3)
}

func (g *bld) records(maxPerSec int) {
	for sec := 0; sec < 3; sec++ {
		n := g.r.Intn(maxPerSec + 1)
		for i := 0; i < n; i++ {
			owner := g.name()
			g.put(sec, g.rr(owner), "a")
		}
	}
}

// padTo adds a TXT record so that the uncompressed length becomes target.
func (g *bld) padTo(target int) {
	base := g.b.ulen()
	need := target - base - 11 // root owner (1) + fixed header (10)
	if need < 1 {
		return
	}
	var txt []string
	for need > 0 {
		l := 255
		if need-1 < l {
			l = need - 1
		}
		txt = append(txt, strings.Repeat("p", l))
		need -= l + 1
	}
	g.put(g.r.Intn(3), &dns.TXT{Hdr: dns.RR_Header{Name: ".", Rrtype: dns.TypeTXT, Class: dns.ClassINET, Ttl: 1}, Txt: txt}, "a")
}

func build(seed uint64, profile string) *built {
	g := &bld{r: vlib.NewR(seed ^ 0xC15C15), b: &built{m: new(dns.Msg), pure: true, prof: profile}}
	r, m := g.r, g.b.m
	g.header()
	m.Question = []dns.Question{g.question()}
	switch profile {
	case "plain":
		m.Response = true
		g.records(4)
		if r.Chance(2, 3) {
			g.newOPT(2)
		}
	case "types":
		g.records(9)
		if r.Chance(1, 2) {
			g.newOPT(2)
		}
	case "svcbopt":
		for i := 0; i < 1+r.Intn(5); i++ {
			owner := g.name()
			if r.Bool() {
				g.put(0, &dns.SVCB{Hdr: g.hdr(owner, dns.TypeSVCB), Priority: 1, Target: g.name(), Value: g.svcbValues()}, "a")
			} else {
				g.put(0, &dns.HTTPS{SVCB: dns.SVCB{Hdr: g.hdr(owner, dns.TypeHTTPS), Priority: 1, Target: g.name(), Value: g.svcbValues()}}, "a")
			}
		}
		o := g.newOPT(2)
		o.Option = g.ednsOptions()
		m.Rcode = vlib.Pick(r, []int{0, 3, 16, 23})
	case "optmix":
		g.records(2)
		m.Rcode = vlib.Pick(r, []int{0, 1, 15, 16, 17, 255, 256, 3841, 4095})
		var opts []*dns.OPT
		n := 1 + r.Intn(3)
		for i := 0; i < n; i++ {
			sec := vlib.Pick(r, []int{2, 2, 2, 0, 1})
			opts = append(opts, g.newOPT(sec))
			if r.Chance(1, 2) {
				g.put(2, g.rr(g.name()), "a")
			}
		}
		if r.Chance(1, 2) { // the same *dns.OPT again, in another slot / section
			o := vlib.Pick(r, opts)
			id := ""
			for s := 0; s < 3; s++ {
				list := [][]dns.RR{m.Answer, m.Ns, m.Extra}[s]
				for i, rr := range list {
					if p, ok := rr.(*dns.OPT); ok && p == o {
						id = g.b.kinds[s][i]
					}
				}
			}
			g.put(vlib.Pick(r, []int{0, 1, 2, 2}), o, id)
		}
		if r.Chance(1, 5) { // an OPT-typed header on something that is not an OPT
			g.put(vlib.Pick(r, []int{0, 2, 2}), &dns.A{Hdr: dns.RR_Header{Name: g.name(), Rrtype: dns.TypeOPT, Class: dns.ClassINET}, A: ip4(r)}, "w")
		}
		if r.Chance(1, 5) { // a *dns.OPT that does not say so in its header
			g.optID++
			g.put(2, &dns.OPT{Hdr: dns.RR_Header{Name: ".", Rrtype: dns.TypeA, Class: 1232, Ttl: 0x8000}, Option: g.ednsOptions()}, "x"+strconv.Itoa(g.optID))
		}
	case "manynames":
		// a name-heavy message: around and far beyond maxPooledCompressionEntries (64) dictionary entries,
		// through many distinct owners or one very deep name; small enough for the pooled buffer
		zone := vlib.Pick(r, []string{"ex.com.", "example.com.", "b.example.org."})
		m.Question = []dns.Question{{Name: "www." + zone, Qtype: dns.TypeA, Qclass: dns.ClassINET}}
		m.Response = true
		m.Compress = r.Chance(9, 10)
		if r.Chance(1, 4) {
			labels := vlib.Pick(r, []int{50, 60, 62, 63, 64, 66, 90, 110})
			deep := strings.Repeat("a.", labels) + zone
			g.put(0, &dns.CNAME{Hdr: dns.RR_Header{Name: "www." + zone, Rrtype: dns.TypeCNAME, Class: dns.ClassINET, Ttl: 5}, Target: deep}, "a")
			g.put(0, &dns.A{Hdr: dns.RR_Header{Name: deep, Rrtype: dns.TypeA, Class: dns.ClassINET, Ttl: 5}, A: ip4(r)}, "a")
		} else {
			n := vlib.Pick(r, []int{40, 58, 59, 60, 61, 62, 63, 64, 65, 66, 80, 100, 120})
			for i := 0; i < n; i++ {
				g.put(i%3, &dns.A{Hdr: dns.RR_Header{Name: fmt.Sprintf("h%d.%s", i, zone), Rrtype: dns.TypeA, Class: dns.ClassINET, Ttl: 60}, A: net.IPv4(10, 0, byte(i>>8), byte(i)).To4()}, "a")
			}
		}
		if r.Chance(1, 2) {
			g.newOPT(2)
		}
	case "skipwrite":
		// records whose library packing ADVANCES the offset without writing every byte it
		// accounts for — a *dns.A / L32 / IPv4-typed gateway holding a 16-byte address that is
		// not IPv4 (kind "s": a library record the pooled packer refuses) — and their harmless
		// look-alikes (IPv4-mapped 16-byte address, IPv6-typed gateway)
		m.Question = []dns.Question{{Name: "skip.example.", Qtype: dns.TypeA, Qclass: dns.ClassINET}}
		m.Response = true
		// 16-byte addresses the library's To4() rejects (it wants ten zero octets AND ff:ff), among them the
		// near misses of "IPv4-mapped"; and genuinely mapped ones
		ra := vlib.NewR(seed*31 + 7) // its own stream: the message SHAPES of earlier seeds (and their recorded witnesses) stay as they were
		v6 := net.ParseIP(vlib.Pick(ra, []string{"2001:db8::1", "::1", "::", "2001:db8::ffff:c000:201", "1::ffff:192.0.2.1",
			"::fffe:c000:201", "::ffff:0:c000:201", "ff02::ffff:ffff", "0:0:0:0:0:1:c000:201"}))
		mapped := net.ParseIP(vlib.Pick(ra, []string{"192.0.2.33", "::ffff:c000:201", "::ffff:0.0.0.0"})) // 16 bytes, IPv4-mapped
		if v6.To4() != nil || len(mapped) != 16 || mapped.To4() == nil {
			panic("skipwrite address table")
		}
		h := func(t uint16) dns.RR_Header {
			return dns.RR_Header{Name: "skip.example.", Rrtype: t, Class: dns.ClassINET, Ttl: 60}
		}
		for i := 0; i < 1+r.Intn(3); i++ {
			harmless := r.Chance(1, 4)
			k := "s"
			if harmless {
				k = "a"
			} else {
				g.b.skips = true
			}
			addr := v6
			if harmless {
				addr = mapped
			}
			switch r.Intn(5) {
			case 0, 1:
				g.put(r.Intn(3), &dns.A{Hdr: h(dns.TypeA), A: addr}, k)
			case 2:
				g.put(r.Intn(3), &dns.L32{Hdr: h(dns.TypeL32), Preference: 10, Locator32: addr}, k)
			case 3:
				if harmless {
					g.put(r.Intn(3), &dns.AMTRELAY{Hdr: h(dns.TypeAMTRELAY), Precedence: 1, GatewayType: dns.AMTRELAYIPv6, GatewayAddr: v6}, "a")
				} else {
					g.put(r.Intn(3), &dns.AMTRELAY{Hdr: h(dns.TypeAMTRELAY), Precedence: 1, GatewayType: dns.AMTRELAYIPv4, GatewayAddr: v6}, "s")
				}
			default:
				if harmless {
					g.put(r.Intn(3), &dns.IPSECKEY{Hdr: h(dns.TypeIPSECKEY), Precedence: 1, GatewayType: dns.IPSECGatewayIPv6, Algorithm: 2, GatewayAddr: v6, PublicKey: b64(r, 32)}, "a")
				} else {
					g.put(r.Intn(3), &dns.IPSECKEY{Hdr: h(dns.TypeIPSECKEY), Precedence: 1, GatewayType: dns.IPSECGatewayIPv4, Algorithm: 2, GatewayAddr: v6, PublicKey: b64(r, 32)}, "s")
				}
			}
		}
		if r.Chance(1, 2) {
			g.put(0, g.rr(g.name()), "a")
		}
		if r.Chance(1, 3) {
			g.newOPT(2)
		}
	case "signed":
		// a signed answer: the question's own RRset (no glue, no CNAME chase) plus RRSIG / NSEC / NSEC3 in
		// answer and authority — what cache admission prepares a DNSSEC-stripped DO=0 body for; sized on
		// both sides of the pooled buffer AFTER stripping
		owner := vlib.Pick(r, []string{"signed.example.", "a.long-label-for-a-signed-zone.example.org.", "."})
		qt := vlib.Pick(r, []uint16{dns.TypeTXT, dns.TypeTXT, dns.TypeA, dns.TypeRRSIG})
		m.Question = []dns.Question{{Name: owner, Qtype: qt, Qclass: dns.ClassINET}}
		m.Response = true
		m.AuthenticatedData = r.Bool()
		m.Rcode = vlib.Pick(r, []int{0, 0, 0, 3})
		m.Compress = r.Chance(3, 4)
		n := vlib.Pick(r, []int{1, 3, 20, 50, 56, 57, 58, 60, 120})
		for i := 0; i < n; i++ {
			if qt == dns.TypeA {
				g.put(0, &dns.A{Hdr: dns.RR_Header{Name: owner, Rrtype: dns.TypeA, Class: dns.ClassINET, Ttl: 300}, A: net.IPv4(192, 0, 2, byte(i)).To4()}, "a")
			} else {
				g.put(0, &dns.TXT{Hdr: dns.RR_Header{Name: owner, Rrtype: dns.TypeTXT, Class: dns.ClassINET, Ttl: 300}, Txt: []string{strings.Repeat("s", 64-i%3)}}, "a")
			}
		}
		sig := func(covered uint16) *dns.RRSIG {
			return &dns.RRSIG{Hdr: dns.RR_Header{Name: owner, Rrtype: dns.TypeRRSIG, Class: dns.ClassINET, Ttl: 300}, TypeCovered: covered, Algorithm: 13, Labels: 2,
				OrigTtl: 300, Expiration: 1800000000, Inception: 1700000000, KeyTag: uint16(r.U64()), SignerName: "example.", Signature: b64(r, 64)}
		}
		if r.Chance(5, 6) {
			g.put(0, sig(qt), "a")
		}
		if r.Chance(1, 2) {
			g.put(1, &dns.NSEC{Hdr: dns.RR_Header{Name: owner, Rrtype: dns.TypeNSEC, Class: dns.ClassINET, Ttl: 60}, NextDomain: "z." + strings.TrimPrefix(owner, "."), TypeBitMap: []uint16{dns.TypeA, dns.TypeTXT, dns.TypeRRSIG, dns.TypeNSEC}}, "a")
			g.put(1, sig(dns.TypeNSEC), "a")
		}
		if r.Chance(1, 4) {
			g.put(1, &dns.SOA{Hdr: dns.RR_Header{Name: "example.", Rrtype: dns.TypeSOA, Class: dns.ClassINET, Ttl: 60}, Ns: "ns.example.", Mbox: "h.example.", Serial: 1, Refresh: 2, Retry: 3, Expire: 4, Minttl: 5}, "a")
		}
		if r.Chance(1, 6) { // glue: the stripped body is then still servable, with its additional record
			g.put(2, &dns.A{Hdr: dns.RR_Header{Name: "ns.example.", Rrtype: dns.TypeA, Class: dns.ClassINET, Ttl: 60}, A: ip4(r)}, "a")
		}
		if r.Chance(1, 2) {
			g.newOPT(2)
		}
	case "cdn":
		// many records under one long owner name: far past the pooled buffer uncompressed,
		// small once compressed (the declined-but-fits-a-datagram class), and the sizes in between
		owner := longName(r, vlib.Pick(r, []int{60, 100, 140, 200}), "customer-zone.example.com.")
		m.Question = []dns.Question{{Name: owner, Qtype: dns.TypeA, Qclass: dns.ClassINET}}
		m.Response = true
		m.Compress = r.Chance(5, 6)
		n := vlib.Pick(r, []int{3, 10, 20, 30, 36, 40, 50, 60, 80})
		for i := 0; i < n; i++ {
			if r.Chance(4, 5) {
				g.put(0, &dns.A{Hdr: dns.RR_Header{Name: owner, Rrtype: dns.TypeA, Class: dns.ClassINET, Ttl: 300}, A: net.IPv4(192, 0, 2, byte(i+1)).To4()}, "a")
			} else {
				g.put(0, &dns.AAAA{Hdr: dns.RR_Header{Name: owner, Rrtype: dns.TypeAAAA, Class: dns.ClassINET, Ttl: 300}, AAAA: ip6(r)}, "a")
			}
		}
		if r.Chance(1, 2) {
			g.put(1, &dns.NS{Hdr: dns.RR_Header{Name: "customer-zone.example.com.", Rrtype: dns.TypeNS, Class: dns.ClassINET, Ttl: 60}, Ns: "ns1." + owner}, "a")
		}
		if r.Chance(2, 3) {
			g.newOPT(2)
		}
	case "bigopt":
		// beyond the pooled buffer, so PackClone takes libraryPackImmutable: OPT (often
		// aliased into other sections) whose TTL the library's Pack would rewrite
		g.records(2)
		m.Rcode = vlib.Pick(r, []int{0, 3, 16, 255, 4095})
		o := g.newOPT(2)
		if r.Chance(1, 2) {
			o.Hdr.Ttl = vlib.Pick(r, []uint32{0xFF008000, 0x01000000, 0xAB000000})
		}
		if r.Chance(1, 2) {
			g.put(vlib.Pick(r, []int{0, 1, 2}), o, g.b.kinds[2][len(g.b.kinds[2])-1])
		}
		if r.Chance(1, 3) {
			g.put(2, g.rr(g.name()), "a")
		}
		g.padTo(wire.VerifPackBufferSize + vlib.Pick(r, []int{1, 2, 50, 400}))
	case "bad":
		g.records(2)
		if r.Chance(1, 2) {
			g.newOPT(2)
		}
		for i := 0; i < 1+r.Intn(2); i++ {
			rr, k := g.inadmissible()
			g.put(r.Intn(3), rr, k)
		}
		if r.Chance(1, 3) {
			g.put(2, g.rr(g.name()), "a")
		}
	case "rcode":
		g.records(1)
		m.Rcode = vlib.Pick(r, []int{0, 15, 16, 17, 100, 255, 256, 4094, 4095, 4096, -1, -16, 65536, r.Intn(4096), r.Intn(4096)})
		if r.Chance(3, 5) {
			g.newOPT(2)
		}
	case "names":
		m.Question[0].Name = vlib.Pick(r, []string{g.name(), g.name(), longName(r, vlib.Pick(r, []int{254, 255, 256}), "example.com.")})
		if r.Chance(1, 8) {
			m.Question[0].Name = g.badName()
		}
		g.records(6)
		m.Compress = r.Chance(5, 6)
		if r.Chance(1, 8) {
			g.put(r.Intn(3), &dns.CNAME{Hdr: g.hdr(g.name(), dns.TypeCNAME), Target: g.badName()}, "a")
		}
		if r.Chance(1, 10) {
			g.put(r.Intn(3), &dns.A{Hdr: g.hdr(g.badName(), dns.TypeA), A: ip4(r)}, "a")
		}
	case "size":
		g.records(3)
		if r.Chance(1, 2) {
			g.newOPT(2)
		}
		m.Compress = r.Bool()
		g.padTo(wire.VerifPackBufferSize + vlib.Pick(r, []int{-30, -3, -2, -1, 0, 0, 1, 2, 3, 30}))
		if r.Chance(1, 4) { // a base64 field at the very end (the library asks for slack there)
			g.put(2, &dns.DNSKEY{Hdr: g.hdr(".", dns.TypeDNSKEY), Flags: 256, Protocol: 3, Algorithm: 8, PublicKey: b64(r, 1+r.Intn(4))}, "a")
		}
	case "qcount":
		m.Question = nil
		for i := 0; i < r.Intn(4); i++ {
			m.Question = append(m.Question, g.question())
		}
		if r.Chance(1, 2) {
			g.records(2)
		}
		m.Compress = true
	case "zero":
		// zero-valued records of registered types (whatever the library makes of them)
		var types []int
		for t := range dns.TypeToRR {
			if t != typePrivate { // made by hand in the "bad" profile (TypeToRR's carries a func field: not comparable)
				types = append(types, int(t))
			}
		}
		sort.Ints(types)
		for i := 0; i < 1+r.Intn(4); i++ {
			t := uint16(vlib.Pick(r, types))
			rr := dns.TypeToRR[t]()
			*rr.Header() = dns.RR_Header{Name: g.name(), Rrtype: t, Class: dns.ClassINET, Ttl: 7}
			fillScalars(r, rr)
			k := "a"
			if _, ok := rr.(*dns.OPT); ok {
				g.optID++
				k = "o" + strconv.Itoa(g.optID)
			}
			if _, private := rr.(*dns.PrivateRR); private { // PrivateHandle registrations
				k = "f"
			}
			g.put(r.Intn(3), rr, k)
		}
	case "hdr":
		m.Opcode = vlib.Pick(r, []int{0, 1, 7, 15, 16, 17, 31, 32, -1, 65535, 1 << 20})
		m.Rcode = vlib.Pick(r, []int{0, 7, 15, 16, 4095})
		g.records(1)
		if m.Rcode > 15 || r.Bool() {
			g.newOPT(2)
		}
	}
	return g.b
}

// fillScalars sets the plain integer fields of a record to random values.
func fillScalars(r *vlib.R, rr dns.RR) {
	v := reflect.ValueOf(rr).Elem()
	for i := 0; i < v.NumField(); i++ {
		f := v.Field(i)
		if v.Type().Field(i).Name == "Hdr" || !f.CanSet() {
			continue
		}
		switch f.Kind() {
		case reflect.Uint8, reflect.Uint16, reflect.Uint32, reflect.Uint64:
			if r.Bool() {
				f.SetUint(r.U64() & 0xFF)
			}
		}
	}
}

// ---------------------------------------------------------------- describe

func isCompressible(m *dns.Msg) bool {
	return len(m.Question) > 1 || len(m.Answer)+len(m.Ns)+len(m.Extra) > 0
}

func safeLen(rr dns.RR) (n int) {
	defer func() {
		if recover() != nil {
			n = 0
		}
	}()
	return dns.Len(rr)
}

// describe renders the skeleton of a message for the model: per piece the
// uncompressed length the library estimates and the number of bytes the
// library PRIMITIVE (dns.PackDomainName / dns.PackRR, the ones both encoders
// call) produces for it at its offset in a buffer of the pooled size, with
// the dictionary evolving as it does in a pack ("E": the primitive refused).
// The message passed in is consumed (PackRR writes Rdlength into it).
func describe(b *built) string {
	m := b.m
	N := wire.VerifPackBufferSize
	buf := make([]byte, N)
	compress := m.Compress && isCompressible(m)
	var dict map[string]int
	if compress {
		dict = map[string]int{}
	}
	off := 12
	dead := false
	piece := func(f func() (int, error)) string {
		if dead {
			return "E"
		}
		var off1 int
		var err error
		func() {
			defer func() {
				if p := recover(); p != nil {
					err = fmt.Errorf("panic")
				}
			}()
			off1, err = f()
		}()
		if err != nil || off1 < off || off1 > N {
			dead = true
			return "E"
		}
		n := off1 - off
		off = off1
		return strconv.Itoa(n)
	}
	var qs []string
	for i := range m.Question {
		q := m.Question[i]
		ul := (&dns.Msg{Question: []dns.Question{q}}).Len() - 12
		pl := piece(func() (int, error) {
			o, err := dns.PackDomainName(q.Name, buf, off, dict, compress)
			return o, err
		})
		if pl != "E" {
			if off+4 > N {
				dead = true
				pl = "E"
			} else {
				off += 4
			}
		}
		qs = append(qs, pl+":"+strconv.Itoa(ul))
	}
	sec := func(list []dns.RR, kinds []string) string {
		var out []string
		for i, rr := range list {
			k := kinds[i]
			if k == "n" {
				out = append(out, "n")
				continue
			}
			ul := safeLen(rr)
			pl := "E"
			if off < N { // PackRR at off == len(buf) is the guard's business, not the primitive's
				pl = piece(func() (int, error) { return dns.PackRR(rr, buf, off, dict, compress) })
			} else {
				dead = true
			}
			out = append(out, k+":"+pl+":"+strconv.Itoa(ul))
		}
		if len(out) == 0 {
			return "-"
		}
		return strings.Join(out, ",")
	}
	q := "-"
	an := sec(m.Answer, b.kinds[0])
	ns := sec(m.Ns, b.kinds[1])
	ex := sec(m.Extra, b.kinds[2])
	if len(qs) > 0 {
		q = strings.Join(qs, ",")
	}
	return fmt.Sprintf("r=%d c=%s q=%s an=%s ns=%s ex=%s N=%d", m.Rcode, vlib.B(m.Compress), q, an, ns, ex, N)
}
