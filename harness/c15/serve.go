//go:build verif

package main

// The owned-listener transports as consumers of a reply: the REAL udpJob
// (burst-staged or sent on a loopback socket) and tcpJob over a tcpStream,
// beneath the chain's responseWriter — pooled bytes through Write, everything
// the packer declines through WriteMsg (PackBuffer into the job's TX, or into
// an allocation when the uncompressed length does not fit it). Whatever the
// route, what leaves is the library's encoding of the reply, and nothing of
// the reply that used the buffers before.

import (
	"bytes"
	"fmt"

	"github.com/miekg/dns"
	"github.com/semihalev/sdns/internal/verif/vlib"
	"github.com/semihalev/sdns/middleware"
	"github.com/semihalev/sdns/server"
)

const staleByte = 0xEE // what the previous client's reply left in the TX storage

var serveChain = middleware.NewChain(nil)

// `msg serve <ub|ud|ts|tl> <directPack> <-|abort|abort2|commit> lib=<outcome> ulen=<n>`
// history: what the wire fast path did on this job before the reply — nothing; took the body lease, wrote part of a
// body and aborted (once / twice); or built the whole reply in the lease and committed it (then THAT is the reply).
func execServe(f []string) vlib.Res {
	if cur == nil || len(f) < 7 {
		return vlib.Res{Impl: "bad-op"}
	}
	tr, dp, hist := f[2], f[3] == "t", f[4]
	f = append(append([]string(nil), f[:4]...), f[5:]...)
	under, ref, pristine := rebuild(), rebuild(), rebuild()
	want := libPack(ref.m)
	if f[4] != "lib="+want.String() || f[5] != fmt.Sprintf("ulen=%d", under.ulen()) {
		return vlib.Res{Impl: "stale-args", Oracle: fmt.Sprintf("FAIL sig=harness/serve-args-do-not-describe-the-message lib=%s ulen=%d", want, under.ulen())}
	}
	req := new(dns.Msg)
	req.SetQuestion("serve.example.", dns.TypeA)

	var transport middleware.Transport
	var sent func() [][]byte
	limit := 65535
	var prev []byte
	switch tr {
	case "ub", "ud":
		u, err := server.VerifC15NewUDP(tr == "ub", staleByte)
		if err != nil {
			return vlib.Res{Impl: "skipped", Oracle: "-"}
		}
		defer u.Close()
		transport = u.Transport()
		limit = server.VerifC15UDPBufSize
		sent = func() [][]byte {
			if b := u.Sent(); b != nil {
				return [][]byte{b}
			}
			return nil
		}
	case "ts", "tl":
		t := server.VerifC15NewTCP(staleByte)
		// an earlier pipelined reply is already staged on the connection
		pm := eventMsg(int(curSeed % 7))
		prev = libPack(eventMsg(int(curSeed % 7))).b
		serveChain.Reset(t.Job(false), req)
		serveChain.AllowDirectPack()
		if err := serveChain.Writer.WriteMsg(pm); err != nil {
			return vlib.Res{Impl: "skipped", Oracle: "FAIL sig=harness/previous-reply-not-staged"}
		}
		transport = t.Job(tr == "tl")
		sent = t.Frames
	default:
		return vlib.Res{Impl: "bad-op"}
	}
	serveChain.Reset(transport, req)
	if dp {
		serveChain.AllowDirectPack()
	}
	var werr error
	committed := false
	leaser, canLease := serveChain.Writer.(middleware.WireBodyLeaser)
	if hist != "-" && !canLease {
		return vlib.Res{Impl: "skipped", Oracle: "FAIL sig=harness/base-writer-does-not-lease"}
	}
	abort := func(n int) {
		if dst := leaser.BeginWire(n+40, 16); dst != nil {
			dst = append(dst, bytes.Repeat([]byte{0xDD}, n)...)
			_ = dst
		}
		leaser.AbortWire()
	}
	switch hist {
	case "abort":
		abort(150)
	case "abort2":
		abort(0)
		abort(900)
	case "commit":
		if want.kind == "ok" {
			body := leaser.BeginWire(len(want.b), 16)
			body = append(body, want.b...)
			werr = leaser.CommitWire(body, middleware.WireInfo{Rcode: under.m.Rcode})
			committed = true
		} else {
			abort(64)
		}
	}
	got := outcome{kind: "ok"}
	if !committed {
		got = capture(func() ([]byte, error) {
			werr = serveChain.Writer.WriteMsg(under.m)
			return nil, werr
		})
	}
	frames := sent()
	if prev != nil && got.kind != "panic" {
		if len(frames) == 0 || !bytes.Equal(frames[0], prev) {
			return vlib.Res{Impl: "broken-stream", Oracle: "FAIL sig=serve/earlier-pipelined-reply-damaged", Tags: "nt,serve"}
		}
		frames = frames[1:]
	}
	impl := "sent=none err"
	switch {
	case got.kind == "panic":
		impl = "panic"
	case len(frames) == 1 && werr == nil:
		impl = fmt.Sprintf("sent=ok/%d", len(frames[0]))
	case len(frames) > 0:
		impl = fmt.Sprintf("sent=%d-frames err=%v", len(frames), werr != nil)
	case werr == nil:
		impl = "sent=none noerr"
	}
	or := "ok"
	expectSend := want.kind == "ok" && len(want.b) <= limit
	switch {
	case want.kind == "panic" || got.kind == "panic":
		if want.kind != got.kind {
			or = fmt.Sprintf("FAIL sig=serve/panic-mismatch got=%s want=%s", got.kind, want.kind)
		}
	case expectSend && (len(frames) != 1 || werr != nil):
		or = fmt.Sprintf("FAIL sig=serve/reply-not-sent frames=%d err=%v want=%s", len(frames), werr, want)
	case expectSend && !bytes.Equal(frames[0], want.b):
		stale := 0
		for _, c := range frames[0] {
			if c == staleByte {
				stale++
			}
		}
		or = fmt.Sprintf("FAIL sig=serve/sent-bytes-are-not-the-library-encoding/%s got=%d want=%d stale-bytes=%d", diffClass(frames[0], want.b), len(frames[0]), len(want.b), stale)
	case !expectSend && len(frames) != 0:
		or = fmt.Sprintf("FAIL sig=serve/sent-although-the-library-refuses-or-it-cannot-fit want=%s", want)
	case !expectSend && werr == nil:
		or = "FAIL sig=serve/failure-not-reported"
	case dp && !unchanged(under.m, pristine.m) && runTryPack(rebuild().m).handled: // on the library path the transport packs
		or = "FAIL sig=serve/message-mutated/" + mutationClass(under.m, pristine.m)
	}
	tags := "nt,serve,serve-" + tr + ",lease-" + hist
	if want.kind == "ok" && under.ulen() > 4096 && len(want.b) <= 4096 {
		tags += ",declined-but-fits"
	}
	return vlib.Res{Impl: impl, Oracle: or, Tags: tags}
}
