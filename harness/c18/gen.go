//go:build verif

package main

import (
	"fmt"
	"os"
	"strings"

	"github.com/miekg/dns"
	"github.com/semihalev/sdns/internal/verif/vlib"
)

var labelPool = []string{"a", "b", "c", "www", "example", "notexample", "com", "net", "org", "ads", "x", "sub", "deep", "ex-ample", "1", "_srv", "co", "mple", "az", "jazz", "z"}

func randLabels(r *vlib.R, n int) []string {
	out := make([]string, n)
	for i := range out {
		out[i] = vlib.Pick(r, labelPool)
	}
	return out
}

func joinLabels(l []string) string {
	if len(l) == 0 {
		return "."
	}
	return strings.Join(l, ".") + "."
}

// universe: a handful of related names so that entries and queries collide.
type universe struct{ names [][]string }

func genUniverse(r *vlib.R) *universe {
	u := &universe{}
	nApex := 1 + r.Intn(3)
	for i := 0; i < nApex; i++ {
		apex := randLabels(r, 1+r.Intn(2))
		if r.Chance(2, 3) {
			apex = append(apex, vlib.Pick(r, []string{"com", "net", "org"}))
		}
		u.names = append(u.names, apex)
		// children and grandchildren
		for j := 0; j < r.Intn(4); j++ {
			child := append(randLabels(r, 1+r.Intn(2)), apex...)
			u.names = append(u.names, child)
			if r.Chance(1, 3) {
				u.names = append(u.names, append(randLabels(r, 1), child...))
			}
		}
		// parent (TLD)
		if len(apex) > 1 && r.Chance(1, 4) {
			u.names = append(u.names, apex[1:])
		}
	}
	return u
}

// boundaryCase: spellings that sit on the edges of the ASCII fold: ONLY the
// letters a and/or z upper-cased (the ends of 'A'..'Z'), everything upper-cased,
// or - must NOT be folded onto each other - the bytes just outside the letter
// ranges ('@' '[' before/after 'A'..'Z', '`' '{' around 'a'..'z').
func boundaryCase(r *vlib.R, s string) (string, string) {
	b := []byte(s)
	up := func(which string) {
		for i, c := range b {
			if strings.IndexByte(which, c) >= 0 {
				b[i] = c - 32
			}
		}
	}
	switch r.Intn(7) {
	case 0:
		up("a")
	case 1:
		up("z")
	case 2:
		up("az")
	case 3:
		up("abcdefghijklmnopqrstuvwxyz")
	case 4:
		up("by") // the letters next to the ends
	default:
		// swap one letter-adjacent punctuation pair: a name that differs from the
		// entry by exactly +-32 on a non-letter must not match
		pairs := map[byte]byte{'@': '`', '`': '@', '[': '{', '{': '[', '^': '~', '~': '^', ']': '}', '}': ']', '\\': '|'}
		hit := false
		for i, c := range b {
			if d, ok := pairs[c]; ok && c != '\\' {
				b[i] = d
				hit = true
				break
			}
		}
		if !hit {
			up("az")
		}
		return string(b), "foldedge"
	}
	return string(b), "azcase"
}

// edgeLabel: a label containing a byte adjacent to the letter ranges.
func edgeLabel(r *vlib.R) string {
	return vlib.Pick(r, []string{"a[b", "a{b", "x`y", "q^r", "q~r", "m]n", "m}n", "az[", "{za"})
}

func mixCase(r *vlib.R, s string) string {
	b := []byte(s)
	for i, c := range b {
		if c >= 'a' && c <= 'z' && r.Chance(1, 3) {
			b[i] = c - 32
		}
	}
	return string(b)
}

// entryText: how an operator would write the entry (with the usual variations).
func entryText(r *vlib.R, l []string) string {
	s := joinLabels(l)
	if r.Chance(1, 3) && s != "." {
		s = s[:len(s)-1] // no trailing dot
	}
	if r.Chance(1, 4) {
		s = mixCase(r, s)
	}
	return s
}

func (u *universe) entry(r *vlib.R, kind string) (string, string) {
	if p := presentEntry(r); p != "" && r.Chance(1, 10) {
		// the SAME name in the other form: "*.x" while "x" is listed and vice versa
		if strings.HasPrefix(p, "*.") {
			return p[2:], "toggled"
		}
		return "*." + p, "toggled"
	}
	l := vlib.Pick(r, u.names)
	tag := ""
	switch {
	case r.Chance(1, 60):
		// the root as an entry
		if kind == "wild" {
			return "*.", "rootent"
		}
		return vlib.Pick(r, []string{".", ""}), "rootent"
	case r.Chance(1, 30):
		// a label that contains a dot (escaped in presentation form)
		l = append([]string{vlib.Pick(r, []string{"x\\.y", "a\\.b"})}, l...)
		tag = "escdot"
	case r.Chance(1, 40):
		// malformed
		return vlib.Pick(r, []string{"a..b.com", ".com", "..", "a.b\\", "*.*.", "*..com", "*"}), "malformed"
	}
	if r.Chance(1, 20) {
		l = append([]string{edgeLabel(r)}, l...)
	}
	s := entryText(r, l)
	if r.Chance(1, 8) {
		s, _ = boundaryCase(r, strings.ToLower(s))
	}
	if kind == "wild" {
		s = "*." + s
		if r.Chance(1, 6) {
			s = "*." + s // "*.*.example.com"
		}
	}
	return s, tag
}

// query derives a query name from the universe: exact, child, parent, sibling,
// label-boundary near misses, case, dots, escapes.
func (u *universe) query(r *vlib.R) (string, string) {
	l := append([]string(nil), vlib.Pick(r, u.names)...)
	tag := ""
	switch r.Intn(16) {
	case 0: // exact
	case 1, 2: // child
		l = append(randLabels(r, 1+r.Intn(3)), l...)
	case 3: // parent
		l = l[1:]
	case 4: // sibling
		l[0] = vlib.Pick(r, labelPool)
	case 5: // near miss: glue text in front of the first label ("notexample.com")
		l[0] = vlib.Pick(r, []string{"not", "x", "a-", "www"}) + l[0]
		tag = "nearmiss"
	case 6: // near miss: glue text behind the last label / cut it ("example.co", "example.comx")
		if r.Bool() {
			l[len(l)-1] = l[len(l)-1] + vlib.Pick(r, []string{"x", "m", "-"})
		} else if len(l[len(l)-1]) > 1 {
			l[len(l)-1] = l[len(l)-1][:len(l[len(l)-1])-1]
		}
		tag = "nearmiss"
	case 7: // near miss: the entry as a non-suffix ("example.com.evil.")
		l = append(l, vlib.Pick(r, []string{"evil", "com", "net"}))
		tag = "nearmiss"
	case 8: // near miss: first label is a suffix of an entry label with the dot glued ("ample.com" vs "example.com")
		if len(l[0]) > 2 {
			l[0] = l[0][1+r.Intn(len(l[0])-2):]
		}
		tag = "nearmiss"
	case 9: // root
		return vlib.Pick(r, []string{".", ""}), "root"
	case 10: // deep subdomain: a handful of labels, or as deep as a name can be (up to 127 labels / 255 octets)
		if r.Chance(1, 2) {
			l = append(randLabels(r, 4+r.Intn(6)), l...)
		} else {
			k := vlib.Pick(r, []int{22, 23, 24, 25, 26, 30, 40, 63, 64, 100, 120})
			base := len(joinLabels(l))
			for k > 0 && base+2*k > 250 {
				k--
			}
			pre := make([]string, k)
			for i := range pre {
				pre[i] = vlib.Pick(r, []string{"a", "b", "x", "0"})
			}
			l = append(pre, l...)
		}
		tag = "deep"
	case 11: // a dot INSIDE the first label: x\.example.com.
		l[0] = vlib.Pick(r, []string{"x", "www", "a"}) + "\\." + l[0]
		tag = "escdot"
	case 12: // escaped backslash followed by a real separator: x\\.example.com.
		l = append([]string{vlib.Pick(r, []string{"x", "a"}) + "\\\\"}, l...)
		tag = "escbs"
	case 13: // decimal escape of a dot / other escapes
		l[0] = vlib.Pick(r, []string{"x\\046", "x\\@", "\\120"}) + l[0]
		tag = "escddd"
	case 14: // wildcard label queried literally
		l = append([]string{"*"}, l...)
		tag = "star"
	case 15: // child whose first label is an entry name's label (www.example.com under example.com)
		l = append([]string{l[0]}, l...)
	}
	s := joinLabels(l)
	if r.Chance(1, 20) {
		s = edgeLabel(r) + "." + s
	}
	if r.Chance(1, 4) {
		s = mixCase(r, s)
	} else if r.Chance(1, 4) {
		var t string
		s, t = boundaryCase(r, s)
		if tag == "" {
			tag = t
		}
	}
	if r.Chance(1, 6) && s != "." {
		s = s[:len(s)-1]
	}
	if r.Chance(1, 60) {
		s = vlib.Pick(r, []string{"a..b.", "..", ".a.", "a.b..", "\\", "a\\"})
		tag = "malformed"
	}
	return s, tag
}

// wireName: the presentation form the server derives from the wire for this
// name ("" if the name cannot be put on the wire).
func wireName(s string) string {
	m := new(dns.Msg)
	m.SetQuestion(dns.Fqdn(s), dns.TypeA)
	buf, err := m.Pack()
	if err != nil {
		return ""
	}
	u := new(dns.Msg)
	if err := u.Unpack(buf); err != nil || len(u.Question) != 1 {
		return ""
	}
	return u.Question[0].Name
}

var qtypes = []uint16{dns.TypeA, dns.TypeA, dns.TypeAAAA, dns.TypeAAAA, dns.TypeTXT, dns.TypeMX, dns.TypeANY, dns.TypeSOA, dns.TypeNS, dns.TypeHTTPS, dns.TypeCNAME, dns.TypeDS}

func nullRoutes(r *vlib.R) (string, string) {
	n4 := vlib.Pick(r, []string{"0.0.0.0", "0.0.0.0", "127.0.0.1", "192.0.2.99", "10.9.8.7"})
	n6 := vlib.Pick(r, []string{"::", "::", "::1", "2001:db8::99", "100::1"})
	return n4, n6
}

func filesyntaxEntry(r *vlib.R) string {
	return vlib.Pick(r, []string{"a#b.example.com", "sp ace.example.com", "tab\tbed.example", "#lead.example.com", "x.example.com #c"})
}

func emitQueries(r *vlib.R, u *universe, emit func(string), k int) int {
	n := 0
	for i := 0; i < k; i++ {
		q, _ := u.query(r)
		if r.Chance(2, 5) {
			if wn := wireName(q); wn != "" {
				emit(fmt.Sprintf("bl %s %s %d", vlib.Pick(r, []string{"serve", "wserve", "serve", "wserve", "iserve"}), enc(wn), vlib.Pick(r, qtypes)))
				n++
				continue
			}
		}
		if r.Chance(1, 8) {
			emit("bl get " + enc(q))
			n++
			continue
		}
		emit("bl exists " + enc(q))
		n++
	}
	return n
}

func genEntries(r *vlib.R, u *universe, kind string, max int) []string {
	var out []string
	for i := 0; i < r.Intn(max+1); i++ {
		e, _ := u.entry(r, kind)
		out = append(out, e)
	}
	return out
}

func fileTextOf(lines []string) string {
	var sb strings.Builder
	for _, l := range lines {
		sb.WriteString(l + "\n")
	}
	return sb.String()
}

// matching case: entries arrive through the config, a pre-existing file and the API.
func genMatchCase(r *vlib.R, emit func(string)) int {
	u := genUniverse(r)
	n4, n6 := nullRoutes(r)
	white := genEntries(r, u, "plain", 2)
	if r.Chance(1, 2) {
		white = nil
	}
	var cfgbl, fileLines []string
	var api []string
	for _, kind := range []string{"plain", "plain", "wild"} {
		for _, e := range genEntries(r, u, kind, 2) {
			switch r.Intn(3) {
			case 0:
				cfgbl = append(cfgbl, e)
			case 1:
				fileLines = append(fileLines, e)
			default:
				api = append(api, e)
			}
		}
	}
	file := "_"
	if len(fileLines) > 0 {
		pre := []string{header}
		if r.Chance(1, 3) {
			// hosts-file style and comments, as the loader accepts them
			pre = []string{"# comment", "", "0.0.0.0 " + fileLines[0] + " # trailing"}
			fileLines = fileLines[1:]
		}
		file = enc(fileTextOf(append(pre, fileLines...)))
	}
	emit(fmt.Sprintf("bl new %s %s %s %s %s", n4, n6, encList(white), encList(cfgbl), file))
	n := 1
	n += emitViaAPI(r, u, emit)
	for _, e := range api {
		emit("bl set " + enc(e))
		n++
	}
	n += emitQueries(r, u, emit, 6+r.Intn(8))
	// churn: remove / re-add / batches, then ask again
	if r.Chance(1, 2) || (cs != nil && cs.api != nil) {
		for i := 0; i < 1+r.Intn(3)+apiExtra(); i++ {
			e, _ := u.entry(r, vlib.Pick(r, []string{"plain", "wild"}))
			switch r.Intn(4) {
			case 0:
				emit("bl remove " + enc(removalTargets(r, u, 1)[0]))
			case 1:
				emit("bl set " + enc(e))
			case 2:
				emit("bl setbatch " + encList(append(genEntries(r, u, "plain", 2), e)))
			default:
				emit("bl removebatch " + encList(removalTargets(r, u, 1+r.Intn(3))))
			}
			n++
			if cs != nil && cs.api != nil && cs.apiToken != "" && r.Chance(1, 2) {
				// the same kind of request without the token, aimed at something that would change
				if p := presentEntry(r); p != "" && r.Bool() {
					emit("bl apideny " + vlib.Pick(r, []string{"remove " + enc(p), "removebatch " + encList([]string{p})}))
				} else {
					emit("bl apideny " + vlib.Pick(r, []string{"set " + enc("denied."+e), "setbatch " + encList([]string{"denied." + e})}))
				}
				n++
			}
		}
		emit("bl state")
		n += 1 + reserve(r, emit, 2) + emitQueries(r, u, emit, 3+r.Intn(5))
		if r.Chance(1, 3) {
			n += emitDrainOneMap(r, emit)
		}
	}
	emit("bl held")
	n++
	if r.Chance(1, 3) {
		n += emitCServe(r, u, emit)
		// two blocked address queries for different names back to back, replies kept
		for i := 0; i < 2; i++ {
			l := append(randLabels(r, 1), vlib.Pick(r, u.names)...)
			if wn := wireName(joinLabels(l)); wn != "" {
				emit(fmt.Sprintf("bl serve %s %d", enc(wn), vlib.Pick(r, []uint16{dns.TypeA, dns.TypeAAAA})))
				n++
			}
		}
		emit("bl held")
		n++
	}
	if r.Chance(1, 3) {
		n += emitDirLoad(r, u, emit)
		n += emitQueries(r, u, emit, 2)
	}
	if r.Chance(1, 3) {
		n += emitReload(emit)
	}
	return n
}

// emitReload: the oracle-only reload, then the same file (as written, and in the
// order that is worst for the loader) through the model-compared loader op.
func emitReload(emit func(string)) int {
	emit("bl file")
	emit("bl reload")
	n := 2
	if cs == nil {
		return n
	}
	if data, err := os.ReadFile(cs.localPath()); err == nil && len(data) < 4000 {
		emit("bl loadfile " + enc(string(data)))
		_, _, adv := cs.reloadVerdict(cs.b, data)
		emit("bl loadfile " + enc(adv))
		n += 2
	}
	return n
}

// persistence case: the locked halves and the persist calls in every order, with I/O failures.
func genPersistCase(r *vlib.R, emit func(string)) int {
	u := genUniverse(r)
	white := genEntries(r, u, "plain", 1)
	if r.Chance(2, 3) {
		white = nil
	}
	file := "_"
	if r.Chance(1, 3) {
		file = enc(fileTextOf(append([]string{header}, genEntries(r, u, "plain", 3)...)))
	}
	emit(fmt.Sprintf("bl new 0.0.0.0 :: %s _ %s", encList(white), file))
	n := 1
	n += emitViaAPI(r, u, emit)
	if r.Chance(1, 5) {
		if r.Bool() {
			emit("bl set " + enc("seed.linked.example"))
			n++
		}
		emit("bl linkmain")
		n++
	}
	var pending []uint64
	steps := 4 + r.Intn(10)
	for i := 0; i < steps; i++ {
		if len(pending) > 0 && r.Chance(2, 5) {
			// persist one of the pending snapshots, newest/oldest/any
			j := r.Intn(len(pending))
			if r.Chance(1, 3) {
				j = len(pending) - 1
			}
			fault := "ok"
			if r.Chance(1, 4) {
				fault = vlib.Pick(r, []string{"nodir", "fsize", "destdir"})
			}
			emit(fmt.Sprintf("bl persist %d %s", pending[j], fault))
			pending = append(pending[:j], pending[j+1:]...)
			n++
			if fault != "ok" && len(pending) == 0 && r.Chance(2, 3) {
				// storage is back; the operator repeats a call for names that are already in memory
				if p := presentEntry(r); p != "" {
					if r.Bool() {
						emit("bl set " + enc(p))
					} else {
						emit("bl setbatch " + encList([]string{p, presentEntry(r)}))
					}
					emit("bl file")
					n += 2
				}
			}
			continue
		}
		if r.Chance(1, 7) {
			// the directory walk of refreshRemote lands here, possibly while a persist is staging
			n += emitDirLoad(r, u, emit)
			continue
		}
		e, _ := u.entry(r, vlib.Pick(r, []string{"plain", "plain", "wild"}))
		if r.Chance(1, 25) {
			e = filesyntaxEntry(r)
		}
		var op string
		switch r.Intn(8) {
		case 0, 1, 2:
			op = "set " + enc(e)
		case 3, 4:
			op = "remove " + enc(removalTargets(r, u, 1)[0])
		case 5:
			op = "setbatch " + encList(append(genEntries(r, u, "plain", 2), e))
		case 6:
			op = "removebatch " + encList(removalTargets(r, u, 1+r.Intn(3)))
		default:
			op = "set " + enc(mixCase(r, e))
		}
		if r.Chance(3, 4) {
			before := uint64(0)
			if cs != nil {
				before = versionOf()
			}
			emit("bl m" + op)
			if cs != nil {
				if v := versionOf(); v != before {
					pending = append(pending, v)
				}
			}
		} else {
			emit("bl " + op)
		}
		n++
		if r.Chance(1, 5) {
			emit("bl file")
			n++
		}
	}
	if raceBudget > 0 && r.Chance(1, 6) {
		raceBudget--
		a, _ := u.entry(r, "plain")
		b, _ := u.entry(r, vlib.Pick(r, []string{"plain", "wild"}))
		emit(fmt.Sprintf("bl persistrace %s %s %s", vlib.Pick(r, []string{"hl", "hl", "lh"}), enc(a), enc("race."+b)))
		n++
	}
	// drain in random order; the newest one without a fault most of the time
	for len(pending) > 0 {
		j := r.Intn(len(pending))
		fault := "ok"
		if r.Chance(1, 8) {
			fault = vlib.Pick(r, []string{"nodir", "fsize", "destdir"})
		}
		emit(fmt.Sprintf("bl persist %d %s", pending[j], fault))
		pending = append(pending[:j], pending[j+1:]...)
		n++
	}
	emit("bl state")
	n++
	n += emitReload(emit)
	n += emitQueries(r, u, emit, 2+r.Intn(3))
	return n
}

// genBulkCase: batches whose size sits on and around the usual chunk sizes.
func genBulkCase(r *vlib.R, emit func(string)) int {
	emit("bl new 0.0.0.0 :: _ " + encList([]string{"keep.example.com"}) + " _")
	n := 1
	if r.Chance(1, 3) && apiBudget > 0 {
		apiBudget--
		emit("bl viaapi -")
		n++
	}
	size := vlib.Pick(r, []int{1, 2, 255, 256, 257, 511, 512, 1000, 1023, 1024, 1025, 2047, 2048, 2048, 2049, 4095, 4096, 4096, 4097})
	sfx := vlib.Pick(r, []string{"bulk.example.net", "ads.list.example", "b.example.com"})
	emit(fmt.Sprintf("bl bulk set %d %s", size, enc(sfx)))
	emit("bl len")
	emit("bl exists " + enc(fmt.Sprintf("x.%d.%s.", size-1, sfx)))
	emit("bl iserve " + enc(fmt.Sprintf("%d.%s.", size/2, sfx)) + " 1")
	n += 3
	if r.Chance(2, 3) {
		// remove the same number again, or a chunk-sized part of it
		k := size
		if r.Bool() && size > 2048 {
			k = 2048
		}
		emit(fmt.Sprintf("bl bulk remove %d %s", k, enc(sfx)))
		emit("bl len")
		emit("bl exists " + enc(fmt.Sprintf("0.%s.", sfx)))
		n += 3
	}
	return n
}

func genConcCase(r *vlib.R, emit func(string)) int {
	u := genUniverse(r)
	emit("bl new 0.0.0.0 :: _ _ _")
	var pool []string
	for i := 0; i < 4+r.Intn(5); i++ {
		e, tag := u.entry(r, vlib.Pick(r, []string{"plain", "plain", "wild"}))
		if tag == "malformed" {
			continue
		}
		pool = append(pool, e)
	}
	if len(pool) == 0 {
		pool = []string{"example.com"}
	}
	emit(fmt.Sprintf("bl conc %d %d %d %s", r.Intn(1<<30), 2+r.Intn(5), 3+r.Intn(8), encList(pool)))
	return 2
}

func genCrashCase(r *vlib.R, emit func(string)) int {
	u := genUniverse(r)
	var items []string
	k := 2 + r.Intn(4)
	var used []string
	for i := 0; i < k; i++ {
		if len(used) > 0 && r.Chance(1, 3) {
			items = append(items, "r"+enc(vlib.Pick(r, used)))
			continue
		}
		e, tag := u.entry(r, vlib.Pick(r, []string{"plain", "plain", "wild"}))
		if tag != "" {
			e = "crash" + fmt.Sprint(i) + ".example.com"
		}
		used = append(used, e)
		items = append(items, "s"+enc(e))
	}
	sysc := vlib.Pick(r, []string{"renameat", "renameat", "fsync", "fsync", "write", "write", "write", "openat"})
	when := 1 + r.Intn(k)
	if sysc == "write" {
		when = 1 + r.Intn(3*k+2)
	}
	if sysc == "openat" {
		// the Go runtime opens about a dozen files before the first temp file
		when = 11 + r.Intn(k+3)
	}
	if r.Chance(1, 4) {
		sysc = "L" + sysc // <dir>/local is a symbolic link
	}
	emit(fmt.Sprintf("bl crash %s %d %s", sysc, when, strings.Join(items, ",")))
	return 1
}

// stagingText: what a persist() in progress would have in its staging file at
// some moment - a prefix (whole lines, or cut inside a line) of the rendering of
// the current memory or of an older list - or other text.
func stagingText(r *vlib.R, u *universe) string {
	if cs == nil || cs.b == nil {
		return "_"
	}
	if r.Chance(1, 6) {
		return "_"
	}
	data, err := os.ReadFile(cs.localPath())
	full := header + "\n"
	if err == nil && r.Chance(1, 3) {
		full = string(data) // the older list
	} else {
		m, wild := memLists()
		for _, e := range m {
			full += e + "\n"
		}
		for _, w := range wild {
			full += "*." + w + "\n"
		}
	}
	if r.Chance(1, 5) {
		e, _ := u.entry(r, "plain")
		full += dns.Fqdn(strings.ToLower(e)) + "\n"
	}
	if po := passedOn(); len(po) > 0 && r.Chance(1, 3) {
		full += coverFor(r, vlib.Pick(r, po).qname) + "\n"
	}
	cut := len(full)
	switch r.Intn(3) {
	case 0: // everything written, not yet renamed
	case 1: // cut anywhere, also inside a line
		cut = r.Intn(len(full) + 1)
	default: // cut at a line end
		lines := strings.SplitAfter(full, "\n")
		k := r.Intn(len(lines) + 1)
		cut = len(strings.Join(lines[:k], ""))
	}
	if cut == 0 {
		return "-"
	}
	return enc(full[:cut])
}

// presentEntry: an entry memory holds right now, as an operator would write it
// ("" if the list is empty) - removals of absent names are no-ops.
func presentEntry(r *vlib.R) string {
	m, wild := memLists()
	n := len(m) + len(wild)
	if n == 0 {
		return ""
	}
	i := r.Intn(n)
	var e string
	if i < len(m) {
		e = m[i]
	} else {
		e = "*." + wild[i-len(m)]
	}
	if r.Chance(1, 3) && len(e) > 1 {
		e = e[:len(e)-1]
	}
	if r.Chance(1, 4) {
		e = mixCase(r, e)
	}
	return e
}

// removalTargets: 1-3 names to remove, mostly present ones, the LAST one present if possible.
func removalTargets(r *vlib.R, u *universe, k int) []string {
	var out []string
	for i := 0; i < k; i++ {
		if e := presentEntry(r); e != "" && (i == k-1 || r.Chance(2, 3)) {
			out = append(out, e)
			continue
		}
		e, _ := u.entry(r, vlib.Pick(r, []string{"plain", "wild"}))
		out = append(out, e)
	}
	return out
}

func apiExtra() int {
	if cs != nil && cs.api != nil {
		return 3
	}
	return 0
}

// passedOn: spellings this case already served and passed on to the next handler
// (clean at the time), newest first - the state any per-name cache would hold.
func passedOn() []heldReply {
	if cs == nil {
		return nil
	}
	var out []heldReply
	for i := len(cs.held) - 1; i >= 0 && len(out) < 8; i-- {
		if !cs.held[i].own && cs.held[i].qname != "" {
			out = append(out, cs.held[i])
		}
	}
	return out
}

// coverFor: a list line that makes name blocked: the name itself, a parent, or a wildcard above it.
func coverFor(r *vlib.R, name string) string {
	name = strings.ToLower(dns.Fqdn(name))
	labels := dns.SplitDomainName(name)
	if len(labels) == 0 {
		return name
	}
	switch r.Intn(3) {
	case 0:
		return name
	case 1:
		k := r.Intn(len(labels))
		return strings.Join(labels[k:], ".") + "."
	default:
		if len(labels) < 2 {
			return name
		}
		k := 1 + r.Intn(len(labels)-1)
		return "*." + strings.Join(labels[k:], ".") + "."
	}
}

// reserve: ask again, in exactly the same spelling (and on both request kinds),
// for names that were served before the list changed.
func reserve(r *vlib.R, emit func(string), k int) int {
	n := 0
	for _, h := range passedOn() {
		if n >= k {
			break
		}
		emit(fmt.Sprintf("bl %s %s %d", vlib.Pick(r, []string{"serve", "wserve", "iserve"}), enc(h.qname), h.qtype))
		n++
		if r.Chance(1, 3) {
			emit(fmt.Sprintf("bl %s %s %d", vlib.Pick(r, []string{"serve", "wserve"}), enc(h.qname), vlib.Pick(r, qtypes)))
			n++
		}
	}
	return n
}

// bulkBudget bounds the large-batch cases.
var bulkBudget int

// remoteBudget bounds the remote-list downloads (each starts a loopback server).
var remoteBudget int

// emitDrainOneMap: remove every plain entry while a wildcard stays (or the other
// way round), then ask - on every request kind - about names the remaining map covers.
func emitDrainOneMap(r *vlib.R, emit func(string)) int {
	m, wild := memLists()
	if len(m) == 0 || len(wild) == 0 {
		return 0
	}
	n := 0
	ask := func(under string) {
		for _, k := range []string{"serve", "wserve", "iserve"} {
			emit(fmt.Sprintf("bl %s %s %d", k, enc("px."+under), vlib.Pick(r, []uint16{dns.TypeA, dns.TypeAAAA, dns.TypeMX})))
			n++
		}
	}
	if r.Bool() {
		if len(m) == 1 || r.Bool() {
			for _, e := range m {
				emit("bl remove " + enc(e))
				n++
			}
		} else {
			emit("bl removebatch " + encList(m))
			n++
		}
		ask(wild[r.Intn(len(wild))])
	} else {
		var ws []string
		for _, w := range wild {
			ws = append(ws, "*."+w)
		}
		emit("bl removebatch " + encList(ws))
		n++
		ask(m[r.Intn(len(m))])
	}
	emit("bl state")
	return n + 1
}

// apiBudget bounds the cases that talk through the HTTP API (each starts a listener).
var apiBudget int

func emitViaAPI(r *vlib.R, u *universe, emit func(string)) int {
	if apiBudget <= 0 || !r.Chance(1, 4) {
		return 0
	}
	apiBudget--
	tok := vlib.Pick(r, []string{"-", "s3cret", "tok-" + fmt.Sprint(r.Intn(1000))})
	emit("bl viaapi " + tok)
	n := 1
	if tok != "-" {
		for i := 0; i < 1+r.Intn(3); i++ {
			e, _ := u.entry(r, vlib.Pick(r, []string{"plain", "wild"}))
			switch r.Intn(5) {
			case 0:
				emit("bl apideny set " + enc(e))
			case 1:
				emit("bl apideny remove " + enc(e))
			case 2:
				emit("bl apideny setbatch " + encList([]string{e, "x." + e}))
			case 3:
				emit("bl apideny removebatch " + encList([]string{e}))
			default:
				emit("bl apideny " + vlib.Pick(r, []string{"exists", "get"}) + " " + enc(e))
			}
			n++
		}
	}
	if r.Chance(1, 2) {
		emit("bl apiempty " + vlib.Pick(r, []string{"setbatch", "removebatch"}))
		n++
	}
	for i := 0; i < r.Intn(3); i++ {
		variant := vlib.Pick(r, []string{"malformed", "wrongtype", "unknown", "nullkeys", "emptyobj"})
		if largeBodyBudget > 0 && r.Chance(1, 6) {
			largeBodyBudget--
			variant = "toolarge"
		}
		if p := presentEntry(r); p != "" && r.Bool() {
			emit("bl apibody remove " + variant + " " + enc(p))
		} else {
			e, _ := u.entry(r, "plain")
			emit("bl apibody set " + variant + " " + enc("body."+e))
		}
		n++
	}
	return n
}

// largeBodyBudget bounds the 8 MiB request bodies.
var largeBodyBudget int

// mainText: the main file as it is on disk right now ("_" = none).
func mainText() string {
	if cs == nil {
		return "_"
	}
	data, err := os.ReadFile(cs.localPath())
	if err != nil {
		return "_"
	}
	if len(data) == 0 {
		return "-"
	}
	return enc(string(data))
}

// remoteListText: a third-party list as they come: plain names, hosts-file lines,
// comments, wildcard lines, CRLF, an entry already listed.
func remoteListText(r *vlib.R, u *universe) string {
	var sb strings.Builder
	for i := 0; i < 1+r.Intn(5); i++ {
		e, tag := u.entry(r, vlib.Pick(r, []string{"plain", "plain", "wild"}))
		if tag == "malformed" {
			continue
		}
		switch r.Intn(6) {
		case 0:
			sb.WriteString("0.0.0.0 " + e + "\n")
		case 1:
			sb.WriteString("127.0.0.1 " + e + " alias." + e + " # ad server\n")
		case 2:
			sb.WriteString("# " + e + "\n\n")
		case 3:
			sb.WriteString(e + "\r\n")
		default:
			sb.WriteString(e + "\n")
		}
	}
	if p := presentEntry(r); p != "" && r.Chance(1, 3) {
		sb.WriteString(p + "\n")
	}
	if po := passedOn(); len(po) > 0 && r.Chance(2, 3) {
		// the list brings in a name a client already asked about while it was clean
		sb.WriteString(coverFor(r, vlib.Pick(r, po).qname) + "\n")
	}
	if sb.Len() == 0 {
		return "-"
	}
	return enc(sb.String())
}

func emitDirLoad(r *vlib.R, u *universe, emit func(string)) int {
	if remoteBudget > 0 && r.Chance(1, 4) {
		remoteBudget--
		emit(fmt.Sprintf("bl remote %s %d %s", mainText(), vlib.Pick(r, []int{200, 200, 200, 404, 500}), remoteListText(r, u)))
		return 1 + reserve(r, emit, 3)
	}
	if r.Chance(1, 3) {
		// the same moment, but the process is killed and restarted instead
		emit("bl restart " + mainText() + " " + stagingText(r, u))
		return 1
	}
	emit("bl dirload " + mainText() + " " + stagingText(r, u))
	return 1 + reserve(r, emit, 3)
}

// emitCServe: 2-5 names, most of them blocked, served concurrently for one address type.
func emitCServe(r *vlib.R, u *universe, emit func(string)) int {
	var names []string
	for i := 0; i < 2+r.Intn(4); i++ {
		l := append(randLabels(r, 1+r.Intn(2)), vlib.Pick(r, u.names)...)
		if wn := wireName(joinLabels(l)); wn != "" {
			names = append(names, wn)
		}
	}
	if len(names) < 2 {
		return 0
	}
	emit(fmt.Sprintf("bl cserve %d %s", vlib.Pick(r, []uint16{dns.TypeA, dns.TypeAAAA, dns.TypeA, dns.TypeAAAA, dns.TypeTXT}), encList(names)))
	return 1
}

// raceBudget: how many persistrace ops (80 ms each) a run may still emit.
var raceBudget int

func memLists() ([]string, []string) {
	if cs == nil || cs.b == nil {
		return nil, nil
	}
	m, wild, _ := dumpOf()
	return m, wild
}

func versionOf() uint64 {
	v, _ := versions()
	return v
}

func gen(r *vlib.R, n int, tier string, emit func(string)) {
	// fixed witnesses first (cheap, always present)
	emit("bl new 0.0.0.0 :: _ " + encList([]string{"example.com"}) + " _")
	emit("bl exists " + enc("notexample.com."))
	emit("bl exists " + enc("sub.example.com."))
	emit("bl exists " + enc("EXAMPLE.com"))
	emit("bl serve " + enc("sub.example.com.") + " 1")
	emit("bl serve " + enc("sub.example.com.") + " 28")
	emit("bl serve " + enc("sub.example.com.") + " 16")
	emit("bl serve " + enc("example.org.") + " 1")
	for _, q := range []string{"Azure.example.com.", "aZure.example.com.", "AZure.example.com.", "AZURE.EXAMPLE.COM.", "azure.exAmple.com.", "jazZ.example.com", "Z.example.com.", "A.example.com."} {
		emit("bl exists " + enc(q))
		emit("bl serve " + enc(q) + " 1")
	}
	emit("bl set " + enc("Zone.AZ.net"))
	emit("bl set " + enc("*.jaZZ.org"))
	emit("bl set " + enc("a[b.edge.net"))
	emit("bl set " + enc("x`y.edge.net"))
	for _, q := range []string{"zone.az.net.", "ZONE.AZ.NET.", "www.Zone.aZ.net.", "x.JAZZ.org.", "x.jazz.ORG", "a{b.edge.net.", "A[B.edge.net.", "x@y.edge.net.", "X`Y.edge.net.", "sub.a{b.edge.net."} {
		emit("bl exists " + enc(q))
	}
	emit("bl state")
	emit("bl serve " + enc("other.example.com.") + " 1")
	emit("bl serve " + enc("other.example.com.") + " 28")
	emit("bl held")
	emit("bl cserve 1 " + encList([]string{"a.example.com.", "b.example.com.", "c.example.org.", "d.example.com."}))
	emit("bl set " + enc("staged.example.net"))
	emit("bl dirload " + mainText() + " " + enc(header+"\nexample.com.\nstaged.exam"))
	emit("bl dirload " + mainText() + " _")
	emit("bl restart " + mainText() + " " + enc(header+"\nexample.com.\nstag"))
	emit("bl restart " + mainText() + " " + enc(header+"\n"))
	emit("bl restart " + mainText() + " _")
	emit("bl set " + enc("after.example.net"))
	emit("bl reload")
	emit("bl remote " + mainText() + " 200 " + enc("# remote list\n0.0.0.0 ads.remote.example\n*.trk.remote.example\nexample.com\n"))
	emit("bl remote " + mainText() + " 404 " + enc("gone.remote.example\n"))
	emit("bl set " + enc("*.same.example"))
	emit("bl set " + enc("same.example"))
	emit("bl file")
	emit("bl remove " + enc("*.same.example"))
	emit("bl file")
	emit("bl fresh " + enc("first.example.com") + " " + enc("second.example.com"))
	for _, k := range []int{23, 24, 25, 26, 60, 118} {
		deep := strings.Repeat("a.", k) + "ads.example.com."
		emit("bl exists " + enc(deep))
		emit("bl serve " + enc(deep) + " 1")
		emit("bl wserve " + enc(deep) + " 1")
		emit("bl wserve " + enc(strings.Repeat("b.", k)+"x.trk.remote.example.") + " 28")
	}
	emit("bl wserve " + enc("sub.example.com.") + " 16")
	emit("bl wserve " + enc("example.org.") + " 1")
	emit("bl held")
	// a name served while clean, then listed by a directory load / a remote list (no API mutation): asked again
	emit("bl serve " + enc("late.cdn.example.org.") + " 1")
	emit("bl wserve " + enc("Late2.cdn.example.org.") + " 28")
	emit("bl dirload " + mainText() + " " + enc(header+"\nlate.cdn.example.org.\n"))
	emit("bl serve " + enc("late.cdn.example.org.") + " 1")
	emit("bl remote " + mainText() + " 200 " + enc("*.cdn.example.org\n"))
	emit("bl wserve " + enc("Late2.cdn.example.org.") + " 28")
	emit("bl serve " + enc("late.cdn.example.org.") + " 16")
	// the blocked CNAME target asked the way the cache chases it (internal sub-query), and an unlisted one
	emit("bl iserve " + enc("ads.example.com.") + " 1")
	emit("bl iserve " + enc("deep.sub.example.com.") + " 28")
	emit("bl iserve " + enc("example.org.") + " 1")
	emit("bl iserve " + enc("late.cdn.example.org.") + " 16")
	// <dir>/local is a symbolic link; a save fails half way, the next one succeeds
	emit("bl new 0.0.0.0 :: _ _ _")
	emit("bl set " + enc("managed.example.com"))
	emit("bl linkmain")
	emit("bl mset " + enc("second.example.com"))
	emit("bl persist 2 fsize")
	emit("bl file")
	emit("bl mremove " + enc("managed.example.com"))
	emit("bl persist 3 destdir")
	emit("bl mset " + enc("third.example.com"))
	emit("bl persist 4 ok")
	emit("bl file")
	emit("bl restart " + mainText() + " _")
	emit("bl crash Lwrite 3 s" + enc("a.linked.example") + ",s" + enc("b.linked.example"))
	emit("bl crash Lwrite 1 s" + enc("a.linked.example") + ",s" + enc("b.linked.example"))
	// the last plain entry goes while a wildcard stays (and the other way round)
	emit("bl new 0.0.0.0 :: _ _ _")
	emit("bl set " + enc("*.tracker.net"))
	emit("bl set " + enc("ads.example"))
	emit("bl remove " + enc("ads.example"))
	emit("bl serve " + enc("px.tracker.net.") + " 1")
	emit("bl wserve " + enc("px.tracker.net.") + " 28")
	emit("bl iserve " + enc("px.tracker.net.") + " 15")
	emit("bl set " + enc("ads.example"))
	emit("bl removebatch " + encList([]string{"*.tracker.net"}))
	emit("bl serve " + enc("x.ads.example.") + " 1")
	emit("bl serve " + enc("px.tracker.net.") + " 1")
	emit("bl remove " + enc("ads.example"))
	emit("bl serve " + enc("x.ads.example.") + " 1")
	// a batch as large as one chunk of whatever chunking an implementation might use
	emit("bl new 0.0.0.0 :: _ _ _")
	emit("bl bulk set 2048 " + enc("bulk.example.net"))
	emit("bl len")
	emit("bl bulk remove 2048 " + enc("bulk.example.net"))
	emit("bl len")
	// a save fails, storage recovers, the operator repeats the same call: it must reach disk
	emit("bl new 0.0.0.0 :: _ " + encList([]string{"configured.example.com"}) + " _")
	emit("bl set " + enc("configured.example.com"))
	emit("bl file")
	emit("bl mset " + enc("retry.example.com"))
	emit("bl persist 2 nodir")
	emit("bl set " + enc("retry.example.com"))
	emit("bl file")
	emit("bl msetbatch " + encList([]string{"r1.example.com", "*.r2.example.com"}))
	emit("bl persist 3 fsize")
	emit("bl setbatch " + encList([]string{"r1.example.com", "*.r2.example.com"}))
	emit("bl file")
	emit("bl reload")
	crashes, concs := 14, 12
	raceBudget = 8
	apiBudget = 40
	remoteBudget = 30
	bulkBudget = 5
	largeBodyBudget = 2
	if tier == "thorough" {
		largeBodyBudget = 20
		remoteBudget = 400
		bulkBudget = 40
		crashes, concs = 150, 300
		raceBudget = 100
		apiBudget = 600
	}
	// fixed witness of the persist race (both start orders)
	emit("bl new 0.0.0.0 :: _ _ _")
	emit("bl persistrace hl " + enc("low.example.com") + " " + enc("high.example.com"))
	emit("bl persistrace lh " + enc("low2.example.com") + " " + enc("high2.example.com"))
	emit("bl state")
	if tier == "thorough" {
		genExhaustive(emit)
	}
	every := n / (crashes + 1)
	everyC := n / (concs + 1)
	nextCrash, nextConc := every, everyC/2
	done := 0
	for done < n {
		switch {
		case done >= nextCrash && crashes > 0:
			done += genCrashCase(r, emit)
			nextCrash += every
			crashes--
		case done >= nextConc && concs > 0:
			done += genConcCase(r, emit)
			nextConc += everyC
			concs--
		case bulkBudget > 0 && r.Chance(1, 30):
			bulkBudget--
			done += genBulkCase(r, emit)
		case r.Chance(3, 5):
			done += genMatchCase(r, emit)
		default:
			done += genPersistCase(r, emit)
		}
	}
}

// genExhaustive: every combination of plain / wildcard / whitelist entries over a
// small tree of names, each asked about every name of the tree and its near misses.
func genExhaustive(emit func(string)) {
	plainU := []string{"a.", "b.a.", "c.b.a.", "x.a."}
	wildU := []string{"*.a.", "*.b.a."}
	whiteU := []string{"b.a.", "c.b.a."}
	queries := []string{"a.", "b.a.", "c.b.a.", "d.c.b.a.", "x.a.", "y.x.a.", "xb.a.", "B.A", "b\\.a.", "a.a.", "."}
	sub := func(u []string, mask int) []string {
		var out []string
		for i, e := range u {
			if mask&(1<<i) != 0 {
				out = append(out, e)
			}
		}
		return out
	}
	for p := 0; p < 1<<len(plainU); p++ {
		for w := 0; w < 1<<len(wildU); w++ {
			for wh := 0; wh < 1<<len(whiteU); wh++ {
				cfg := append(sub(plainU, p), sub(wildU, w)...)
				emit(fmt.Sprintf("bl new 0.0.0.0 :: %s %s _", encList(sub(whiteU, wh)), encList(cfg)))
				for _, q := range queries {
					emit("bl exists " + enc(q))
				}
				emit("bl state")
			}
		}
	}
}
