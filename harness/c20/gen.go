//go:build verif

package main

import (
	"context"
	"fmt"
	"net"
	"net/netip"
	"strings"

	"github.com/miekg/dns"
	"github.com/semihalev/sdns/config"
	"github.com/semihalev/sdns/internal/verif/vlib"
	"github.com/semihalev/sdns/middleware"
	"github.com/semihalev/sdns/middleware/dns64"
)

var legalLens = []int{32, 40, 48, 56, 64, 96}

func hx(b []byte) string { return vlib.Hex(b) }

func mustHex(s string) []byte { return vlib.UnHex(s) }

// boundary IPv4 addresses: extremes, both sides of every default exclusion
// range, octets that collide with the IPv4-mapped marker.
var v4Pool = []string{
	"00000000", "ffffffff", "c0000221", "7f000001", "80000000", "01020304", "08080808", "01010101",
	"09ffffff", "0a000000", "0affffff", "0b000000", "643fffff", "64400000", "647fffff", "64800000",
	"a9fdffff", "a9fe0000", "a9feffff", "a9ff0000", "ac0fffff", "ac100000", "ac1fffff", "ac200000",
	"c0000000", "c00000ff", "c0000100", "c0000200", "c00002ff", "c0000300", "c0586300", "c0a7ffff", "c0a80000", "c0a8ffff", "c0a90000",
	"c611ffff", "c6120000", "c613ffff", "c6140000", "c6336400", "c63364ff", "c6336500", "cb007100", "cb0071ff", "cb007200",
	"dfffffff", "e0000000", "efffffff", "f0000000", "fffffffe", "00ffff07", "0000ffff", "00ffffff", "ff00ff00",
}

func genPrefixIP(r *vlib.R) []byte {
	switch r.Intn(8) {
	case 0:
		return mustHex("0064ff9b000000000000000000000000")
	case 1:
		return mustHex("20010db8012203440000000000000000")
	case 2:
		b := make([]byte, 16)
		for i := range b {
			b[i] = 0xff
		}
		b[8] = 0
		return b
	case 3:
		b := r.Bytes(16)
		b[8] = 0
		return b
	}
	b := r.Bytes(16)
	if r.Chance(1, 2) {
		b[8] = 0
	}
	return b
}

func maskedIP(ip []byte, bits int) []byte {
	a := netip.PrefixFrom(netip.AddrFrom16([16]byte(ip)), bits).Masked().Addr().As16()
	return a[:]
}

func genV4(r *vlib.R) []byte {
	if r.Chance(1, 4) {
		return r.Bytes(4)
	}
	return mustHex(vlib.Pick(r, v4Pool))
}

// emitPfxCase: embed, extract of the embedding, extract of perturbations, and
// the ip6.arpa name of the embedding.
func emitPfxCase(r *vlib.R, emit func(string), ip []byte, bits int, v4 []byte) int {
	n := 0
	// validatePrefix / embedIPv4 / extractIPv4 only ever see what net.ParseCIDR
	// returned: the address is masked to the prefix length.
	ip = maskedIP(ip, bits)
	emit(fmt.Sprintf("pfx embed %s %d %s", hx(ip), bits, hx(v4)))
	n++
	if !rfcLegal(bits) {
		emit(fmt.Sprintf("pfx extract %s %d %s", hx(ip), bits, hx(r.Bytes(16))))
		return n + 1
	}
	p := netip.PrefixFrom(netip.AddrFrom16([16]byte(maskedIP(ip, bits))), bits)
	e := rfcEmbed(p, [4]byte(v4))
	emit(fmt.Sprintf("pfx extract %s %d %s", hx(ip), bits, hx(e[:])))
	emit("pfx arpa " + hexOfName(arpaName(e)))
	n += 2
	pos := rfc6052Pos[bits]
	idxs := []int{8, 15, pos[3] + 1, 0, bits/8 - 1, pos[0], 10, 11}
	for _, i := range idxs {
		if i > 15 || !r.Chance(1, 2) {
			continue
		}
		x := e
		x[i] ^= byte(1 << uint(r.Intn(8)))
		emit(fmt.Sprintf("pfx extract %s %d %s", hx(ip), bits, hx(x[:])))
		n++
	}
	return n
}

// breakSeparator keeps every nibble where it is and replaces one label
// separator in front of .ip6.arpa by another byte: the labels are no longer
// all one character although the length is unchanged.
func breakSeparator(r *vlib.R, name string) string {
	b := []byte(name)
	i := 1 + 2*r.Intn(31)
	if i < len(b) && b[i] == '.' {
		b[i] = vlib.Pick(r, []byte{'-', '_', 'a', '0', 'f', ':', ' '})
	}
	return string(b)
}

var arpaBad = []string{
	"ip6.arpa.", ".ip6.arpa.", "1.ip6.arpa.", "1.0.0.127.in-addr.arpa.", "example.org.", "",
}

func genArpaMalformed(r *vlib.R) string {
	a := [16]byte(r.Bytes(16))
	good := arpaName(a)
	labels := strings.Split(strings.TrimSuffix(good, ".ip6.arpa."), ".")
	switch r.Intn(13) {
	case 0:
		return strings.Join(labels[1:], ".") + ".ip6.arpa."
	case 1:
		return "0." + good
	case 2:
		labels[r.Intn(32)] = "1f"
		return strings.Join(labels, ".") + ".ip6.arpa."
	case 3:
		labels[r.Intn(32)] = "g"
		return strings.Join(labels, ".") + ".ip6.arpa."
	case 4:
		return strings.ToUpper(good)
	case 5:
		return strings.TrimSuffix(good, ".")
	case 6:
		labels[r.Intn(32)] = ""
		return strings.Join(labels, ".") + ".ip6.arpa."
	case 7:
		return good + "x."
	case 8:
		return strings.Replace(good, "ip6.arpa.", "ip6.arpa..", 1)
	case 9:
		return strings.Replace(good, ".ip6.arpa.", "ip6.arpa.", 1)
	case 10:
		labels[r.Intn(32)] = vlib.Pick(r, []string{"-", "/", ":", "@", "`", "G", "x"})
		return strings.Join(labels, ".") + ".ip6.arpa."
	case 11:
		return breakSeparator(r, good)
	}
	return vlib.Pick(r, arpaBad)
}

// ---------------------------------------------------------------- d64 cases

type genCfg struct {
	ps, cs, xa, x6 []ent
	zs             []string
	xaNil, x6Nil   bool
	o              *ocfg
}

func entStr(e ent) string {
	if e.kind == 'b' {
		return "bad"
	}
	return fmt.Sprintf("%c:%s/%d", e.kind, hx(e.ip), e.bits)
}

func entsStr(es []ent) string {
	if len(es) == 0 {
		return "-"
	}
	var out []string
	for _, e := range es {
		out = append(out, entStr(e))
	}
	return strings.Join(out, ",")
}

func e6(h string, bits int) ent { return ent{kind: '6', ip: mustHex(h), bits: bits} }
func e4(h string, bits int) ent { return ent{kind: '4', ip: mustHex(h), bits: bits} }

func genPrefixEnt(r *vlib.R) ent {
	switch r.Intn(14) {
	case 0, 1, 2:
		return e6("0064ff9b000000000000000000000000", 96)
	case 3, 4, 5, 6:
		return ent{kind: '6', ip: genPrefixIP(r), bits: vlib.Pick(r, legalLens)}
	case 7:
		return e6("20010db8006400000000000000000000", 96)
	case 8:
		return ent{kind: '6', ip: genPrefixIP(r), bits: vlib.Pick(r, []int{0, 31, 33, 39, 41, 63, 65, 72, 80, 88, 95, 97, 104, 128})}
	case 9: // /96 reaching into the reserved octet
		b := r.Bytes(16)
		if b[8] == 0 {
			b[8] = 1
		}
		return ent{kind: '6', ip: b, bits: 96}
	case 10: // shorter prefix written with a non-zero reserved octet: masked away by ParseCIDR
		b := r.Bytes(16)
		b[8] = 0xff
		return ent{kind: '6', ip: b, bits: vlib.Pick(r, []int{32, 40, 48, 56, 64})}
	case 11:
		return e4("0a000000", vlib.Pick(r, []int{8, 32}))
	case 12:
		return ent{kind: 'b'}
	}
	return e6("00000000000000000000ffff00000000", 96)
}

var clientNetPool = []ent{e4("c0a80000", 16), e4("0a000000", 8), e6("20010db8000000000000000000000000", 32), e6("fd000000000000000000000000000000", 8),
	{kind: 'b'}, e4("cb007105", 32), e6("20010db8aaaa00000000000000000001", 128), e4("c0a80100", 23),
	// IPv6-only client sets that cover ::ffff:0:0/96 bit-wise: IPv4 sources stay outside
	e6("00000000000000000000000000000000", 0), e6("00000000000000000000000000000000", 1), e6("00000000000000000000000000000000", 64),
	e6("00000000000000000000000000000000", 80), e6("00000000000000000000ffff00000000", 96), e4("00000000", 0)}

var zonePool = []string{"example.org", "Example.ORG.", " corp.test. ", "", "org", "deep.sub.example.net.", "\tx.y.\n", ".",
	// zones whose labels need escaping, written the way the library renders them
	"a\\.b.example.org", "sp\\ ace.test.", "\\000x.test", "X\\@y.Corp.TEST", "q\\\"uote.test", "\\233t\\233.test.",
	// the same names in other legal presentation forms (RFC 1035 section 5.1), and texts that are not names
	"\\069xample.org", "ex\\097mple.ORG.", "\\e\\x\\a\\m\\p\\l\\e.org", "a\\046b.example.org", "sp ace.test", "x\\1y.test", "\\999.test",
	"\\067orp.test", "a..b.test", ".lead.test", strings.Repeat("l", 64) + ".test", "deep.\\115ub.example.net"}

// names (as label lists) under, next to and around the escaped zones
var escNamePool = [][]string{
	{"host", "a.b", "example", "org"}, {"a.b", "example", "org"}, {"b", "example", "org"}, {"a", "b", "example", "org"},
	{"sp ace", "test"}, {"www", "SP ACE", "test"}, {"space", "test"}, {"\x00x", "test"}, {"h", "\x00X", "test"}, {"000x", "test"},
	{"x@y", "corp", "test"}, {"m", "X@Y", "corp", "test"}, {"q\"uote", "test"}, {"\xe9t\xe9", "test"}, {"w", "\xe9T\xe9", "test"},
	{"x1y", "test"}, {"w", "X1Y", "test"}, {"\xe7", "test"}, {"h", "\xe7", "test"}, {"lead", "test"}, {"b", "test"}, {"host", "example", "org"},
	{"v", "deep", "sub", "example", "net"}}

var qnamePool = []string{"host.example.net.", "www.example.org.", "example.org.", "WWW.EXAMPLE.ORG.", "badexample.org.", "host.badexample.org.",
	"a.corp.test.", "corp.test.", "xcorp.test.", "org.", "example.org.evil.", "v.deep.sub.example.net.", "sub.example.net.", "x.y.", "ax.y.", "host.Example.Org."}

func genConfig(r *vlib.R) *genCfg {
	g := &genCfg{xaNil: true, x6Nil: true}
	for i, k := 0, 1+r.Intn(3); i < k; i++ {
		g.ps = append(g.ps, genPrefixEnt(r))
	}
	if r.Chance(1, 12) {
		g.ps = nil
	}
	if r.Chance(2, 5) {
		for i, k := 0, 1+r.Intn(3); i < k; i++ {
			g.cs = append(g.cs, vlib.Pick(r, clientNetPool))
		}
	}
	if r.Chance(2, 5) {
		for i, k := 0, 1+r.Intn(3); i < k; i++ {
			g.zs = append(g.zs, vlib.Pick(r, zonePool))
		}
	}
	switch r.Intn(10) {
	case 0, 1:
		g.xaNil = false
	case 2, 3, 4:
		g.xaNil = false
		pool := []ent{e4("c0000200", 24), e4("0a000000", 8), e4("08080808", 32), e4("08080000", 15), {kind: 'b'}, e6("20010db8000000000000000000000000", 32), e4("00000000", 0)}
		for i, k := 0, 1+r.Intn(3); i < k; i++ {
			g.xa = append(g.xa, vlib.Pick(r, pool))
		}
	}
	switch r.Intn(10) {
	case 0, 1:
		g.x6Nil = false
	case 2, 3, 4:
		g.x6Nil = false
		pool := []ent{e6("20010db8000000000000000000000000", 32), e6("00000000000000000000ffff00000000", 96), e4("0a000000", 8), {kind: 'b'},
			e6("20010db8000000000000000000000001", 128), e6("00000000000000000000ffff0a000000", 104),
			// lengths that are not a whole number of octets: ULA, link-local, a /33, global unicast /3
			e6("fc000000000000000000000000000000", 7), e6("fe800000000000000000000000000000", 10),
			e6("20010db8800000000000000000000000", 33), e6("20000000000000000000000000000000", 3), e6("20010db8000000000000000000000000", 47)}
		for i, k := 0, 1+r.Intn(3); i < k; i++ {
			g.x6 = append(g.x6, vlib.Pick(r, pool))
		}
	}
	g.o = oracleCfg(g.ps, g.cs, g.zs, g.xa, g.x6, g.xaNil, g.x6Nil)
	return g
}

func (g *genCfg) line() string {
	zt := "-"
	if len(g.zs) > 0 {
		var zz []string
		for _, z := range g.zs {
			zz = append(zz, hexOfName(z))
		}
		zt = strings.Join(zz, ",")
	}
	xa, x6 := "nil", "nil"
	if !g.xaNil {
		xa = entsStr(g.xa)
	}
	if !g.x6Nil {
		x6 = entsStr(g.x6)
	}
	return fmt.Sprintf("d64 new %s %s %s %s %s", entsStr(g.ps), entsStr(g.cs), zt, xa, x6)
}

var ttlPool = []int{0, 1, 29, 30, 59, 60, 61, 300, 599, 600, 601, 3600, 86400}

var aaaaPool = []string{"20010db8000000000000000000000001", "20010db8000000000000000000000002", "00000000000000000000ffff0a000001",
	"00000000000000000000ffffc0000221", "26064700470000000000000000001111", "0064ff9b0000000000000000c0000221", "00000000000000000000000000000001",
	// both sides of the non-octet exclusion boundaries
	"fd000000000000000000000000000001", "fbff0000000000000000000000000001", "fe000000000000000000000000000001", "fe800000000000000000000000000001",
	"febf0000000000000000000000000001", "fec00000000000000000000000000001", "20010db8800000000000000000000001", "20010db87fffffff0000000000000001",
	"20010db8000100000000000000000001", "20010db8000200000000000000000001", "40000000000000000000000000000001", "3fff0000000000000000000000000001"}

func genClient(r *vlib.R, g *genCfg, eligible bool) string {
	cands := []string{"4:cb007105", "4:c0a80107", "4:0a010203", "6:20010db8000000000000000000000099", "6:fd001234000000000000000000000001",
		"6:00000000000000000000ffffc0a80107", "4:c0a80000", "4:c0a7ffff", "4:c0a8ffff", "4:c0a90000", "6:20010db8aaaa00000000000000000001",
		"6:20010db8aaaa00000000000000000002", "4:c0a801ff", "4:c0a80200", "6:26064700000000000000000000000001", "6:00000000000000000000ffff0a000001"}
	for try := 0; try < 20; try++ {
		c := vlib.Pick(r, cands)
		ok := len(g.o.clients) == 0 || inAny(g.o.clients, parseClient(c))
		if ok == eligible {
			return c
		}
	}
	return vlib.Pick(r, cands)
}

func rrsStr(rs []string) string {
	if len(rs) == 0 {
		return "-"
	}
	return strings.Join(rs, ",")
}

func genDown(r *vlib.R, kind int) string {
	b := func(c bool) string { return vlib.B(c) }
	soa := func() string {
		switch r.Intn(6) {
		case 0:
			return "-"
		case 1:
			return fmt.Sprintf("%d/%d,%d/%d", vlib.Pick(r, ttlPool), vlib.Pick(r, ttlPool), vlib.Pick(r, ttlPool), vlib.Pick(r, ttlPool))
		}
		return fmt.Sprintf("%d/%d", vlib.Pick(r, ttlPool), vlib.Pick(r, ttlPool))
	}
	switch kind {
	case 0: // NODATA
		return fmt.Sprintf("0;%s%s%st;-;n;-;%s", b(r.Chance(1, 2)), "f", b(r.Chance(3, 4)), soa())
	case 1: // NODATA through an alias
		return fmt.Sprintf("0;%sf%st;-;n;c/%d/0/1;%s", b(r.Chance(1, 2)), b(r.Chance(3, 4)), vlib.Pick(r, ttlPool), soa())
	case 2: // NXDOMAIN, bare or behind an alias chain ("alias exists, target does not")
		ans := vlib.Pick(r, []string{"-", "-", "c/60/0/1", "c/300/0/1,c/60/1/2", "d/60/5/6,c/60/0/1", "d/3600/5/6"})
		return fmt.Sprintf("3;%sf%st;-;n;%s;%s", b(r.Chance(1, 2)), b(r.Chance(3, 4)), ans, soa())
	case 3: // SERVFAIL + EDE
		var codes []string
		for i, k := 0, 1+r.Intn(2); i < k; i++ {
			if r.Chance(1, 6) {
				codes = append(codes, fmt.Sprint(vlib.Pick(r, []int{49, 100, 65535, 256 + 6, 13})))
			} else {
				codes = append(codes, fmt.Sprint(r.Intn(31)))
			}
		}
		return fmt.Sprintf("2;f%s%st;%s;n;-;-", "f", b(r.Chance(9, 10)), strings.Join(codes, ","))
	case 4: // SERVFAIL, marked or plain
		return fmt.Sprintf("2;ff%st;-;%s;-;-", b(r.Chance(1, 2)), vlib.Pick(r, []string{"n", "c", "a", "l", "n", "k", "p", "s", "m", "r"}))
	case 5: // other rcodes, some with a DNSSEC EDE that is not a SERVFAIL
		ede := "-"
		if r.Chance(1, 3) {
			ede = fmt.Sprint(vlib.Pick(r, []int{6, 7, 13, 1, 12}))
		}
		return fmt.Sprintf("%d;%sftt;%s;%s;-;%s", vlib.Pick(r, []int{1, 4, 5, 6, 9, 10, 15, 0}), b(r.Chance(1, 3)), ede, vlib.Pick(r, []string{"n", "n", "n", "c", "l", "p", "s"}), soa())
	case 6: // native AAAA (some excluded)
		var rs []string
		if r.Chance(1, 3) {
			rs = append(rs, fmt.Sprintf("c/%d/0/1", vlib.Pick(r, ttlPool)))
		}
		for i, k := 0, 1+r.Intn(3); i < k; i++ {
			rs = append(rs, fmt.Sprintf("6/%d/%s/%s", vlib.Pick(r, ttlPool), vlib.Pick(r, []string{"0", "0", "1"}), vlib.Pick(r, aaaaPool)))
		}
		if r.Chance(1, 4) {
			rs = append(rs, "o/60/0")
		}
		return fmt.Sprintf("0;%sf%st;%s;n;%s;%s", b(r.Chance(1, 2)), b(r.Chance(3, 4)), vlib.Pick(r, []string{"-", "-", "4", "6"}), rrsStr(rs), soa())
	case 7: // only excluded AAAA
		var rs []string
		for i, k := 0, 1+r.Intn(2); i < k; i++ {
			rs = append(rs, fmt.Sprintf("6/%d/0/%s", vlib.Pick(r, ttlPool), vlib.Pick(r, []string{"00000000000000000000ffff0a000001", "00000000000000000000ffffc0000221"})))
		}
		return fmt.Sprintf("0;%sf%st;-;n;%s;%s", b(r.Chance(1, 2)), b(r.Chance(3, 4)), rrsStr(rs), soa())
	case 8:
		return fmt.Sprintf("0;%s%s%s%s;-;n;-;%s", b(r.Chance(1, 2)), b(r.Chance(1, 2)), b(r.Chance(1, 2)), b(r.Chance(1, 2)), soa())
	}
	return "-"
}

func genAResp(r *vlib.R, kind int) string {
	as := func(owner string) []string {
		var rs []string
		for i, k := 0, 1+r.Intn(3); i < k; i++ {
			ip := genV4(r)
			switch r.Intn(8) {
			case 0: // the form miekg produces when it unpacks an A record
				ip = append([]byte{0, 0, 0, 0, 0, 0, 0, 0, 0, 0, 0xff, 0xff}, ip...)
			case 1:
				if r.Chance(1, 3) { // 16 bytes that are not an IPv4 address
					ip = append([]byte{0x20, 0x01, 0x0d, 0xb8, 0, 0, 0, 0, 0, 0, 0, 0}, ip...)
				}
			}
			rs = append(rs, fmt.Sprintf("4/%d/%s/%s", vlib.Pick(r, ttlPool), owner, hx(ip)))
		}
		return rs
	}
	switch kind {
	case 0:
		return "n;0;" + rrsStr(as("0"))
	case 1: // alias chain
		rs := []string{fmt.Sprintf("c/%d/0/1", vlib.Pick(r, ttlPool))}
		term := "1"
		if r.Chance(1, 2) {
			rs = append(rs, fmt.Sprintf("c/%d/1/2", vlib.Pick(r, ttlPool)))
			term = "2"
		}
		if r.Chance(1, 4) {
			rs = append([]string{fmt.Sprintf("d/%d/5/6", vlib.Pick(r, ttlPool))}, rs...)
		}
		if r.Chance(1, 6) {
			rs = append(rs, "o/30/"+term)
		}
		if r.Chance(1, 4) {
			// the A RRset's owner in the letter case the target zone stores (tokens 11..19)
			term = "1" + term
		}
		return "n;0;" + rrsStr(append(rs, as(term)...))
	case 2:
		rs := []string{}
		if r.Chance(1, 2) {
			rs = append(rs, "c/60/0/1")
		}
		return fmt.Sprintf("n;%d;%s", vlib.Pick(r, []int{2, 3, 5, 1}), rrsStr(rs))
	case 3:
		return "n;0;" + vlib.Pick(r, []string{"-", "c/60/0/1", "6/60/0/20010db8000000000000000000000001", "c/60/0/1,c/30/1/2", "o/60/0"})
	case 4:
		return vlib.Pick(r, []string{"g", "a", "w", "x", "q"}) + ";0;" + rrsStr(as("0"))
	case 5: // malformed: owner is not the chain terminal
		return "n;0;" + rrsStr(append([]string{"c/60/0/1"}, as(vlib.Pick(r, []string{"0", "3"}))...))
	}
	return "n;0;-"
}

func pickWeighted(r *vlib.R, w []int) int {
	t := 0
	for _, x := range w {
		t += x
	}
	k := r.Intn(t)
	for i, x := range w {
		if k < x {
			return i
		}
		k -= x
	}
	return 0
}

// wireOf packs a dot-separated plain name into uncompressed wire form.
func wireOf(labels [][]byte) []byte {
	var b []byte
	for _, l := range labels {
		if len(l) == 0 {
			continue
		}
		if len(l) > 63 {
			l = l[:63]
		}
		b = append(b, byte(len(l)))
		b = append(b, l...)
	}
	return append(b, 0)
}

func splitLabels(name string) [][]byte {
	var out [][]byte
	for _, l := range strings.Split(strings.TrimSuffix(name, "."), ".") {
		out = append(out, []byte(l))
	}
	return out
}

var oddLabels = []string{"a.b", "A B", "\x00x", "\xe9t\xe9", "back\\slash", "semi;colon", "(p)", "\"q\"", "x@y", "it's", "~tilde", "del\x7f", "\xff", "UPPER", "tab\there", "1", "\\", "."}

// qnameField renders the queried name for the op line: mostly as a wire name
// (`w:`), whose labels may hold bytes that need escaping in presentation form
// (dots inside a label, upper case, non-printable and 8-bit bytes); sometimes
// as legacy presentation text.
func qnameField(r *vlib.R, name string, allowText bool) (string, bool) {
	if name == "" || strings.Contains(name, "..") || strings.HasPrefix(name, ".") && name != "." {
		return hexOfName(name), false
	}
	if allowText && r.Chance(1, 4) {
		return hexOfName(name), false
	}
	labels := splitLabels(name)
	if name == "." {
		labels = nil
	}
	if len(labels) > 0 && len(labels[0]) > 0 {
		switch r.Intn(12) {
		case 0:
			labels = append([][]byte{[]byte(vlib.Pick(r, oddLabels))}, labels...)
		case 1:
			labels[0] = []byte(vlib.Pick(r, oddLabels))
		case 2: // "x.example" + "org": a dot inside a label next to a zone boundary
			if len(labels) >= 2 {
				merged := append(append(append([]byte{}, labels[0]...), '.'), labels[1]...)
				labels = append([][]byte{merged}, labels[2:]...)
			}
		case 3:
			labels[r.Intn(len(labels))] = []byte(strings.ToUpper(string(labels[0])))
		}
	}
	for _, l := range labels {
		if len(l) == 0 || len(l) > 63 {
			return hexOfName(name), false
		}
	}
	return "w:" + hx(wireOf(labels)), true
}

func flags7(r *vlib.R, internal, rd, cd, wx, isWire bool) string {
	replay := r.Chance(1, 4)
	wire := isWire && r.Chance(2, 5)
	twoQ := r.Chance(1, 40)
	if wire {
		wx = false
	}
	return vlib.B(internal) + vlib.B(rd) + vlib.B(cd) + vlib.B(wx) + vlib.B(replay) + vlib.B(wire) + vlib.B(twoQ) + vlib.B(r.Chance(1, 4))
}

var sectPool = []string{"4/60/3/c0000201", "6/60/3/20010db8000000000000000000000053", "o/30/4", "4/300/4/0a000001", "O", "s/300/z/60", "c/60/5/6"}

func genSection(r *vlib.R, allowOPT bool) string {
	if !r.Chance(1, 3) {
		return "-"
	}
	var out []string
	for i, k := 0, 1+r.Intn(3); i < k; i++ {
		t := vlib.Pick(r, sectPool)
		if t == "O" && !allowOPT {
			continue
		}
		out = append(out, t)
	}
	return rrsStr(out)
}

func genServe(r *vlib.R, g *genCfg, emit func(string)) int {
	eligible := !r.Chance(1, 6)
	client := genClient(r, g, eligible)
	internal, rd, cd, wx := r.Chance(1, 14), !r.Chance(1, 10), r.Chance(1, 10), r.Chance(1, 25)
	qclass := 1
	if r.Chance(1, 14) {
		qclass = vlib.Pick(r, []int{3, 4, 255, 0, 254})
	}
	qtype := 28
	if r.Chance(1, 14) {
		qtype = vlib.Pick(r, []int{1, 255, 16, 5, 65, 2})
	}
	qname := vlib.Pick(r, qnamePool)
	dk := pickWeighted(r, []int{30, 8, 6, 10, 6, 6, 10, 8, 3, 1})
	if wx {
		dk = vlib.Pick(r, []int{3, 4, 4, 0})
	}
	down := genDown(r, dk)
	if down != "-" {
		down += ";" + genSection(r, false)
	}
	ar := genAResp(r, pickWeighted(r, []int{40, 20, 6, 6, 8, 3})) + ";" + genSection(r, true) + ";" + genSection(r, true)
	n := 0
	qf, isWire := qnameField(r, qname, true)
	if r.Chance(1, 8) {
		var ls [][]byte
		for _, l := range vlib.Pick(r, escNamePool) {
			ls = append(ls, []byte(l))
		}
		qf, isWire = "w:"+hx(wireOf(ls)), true
	}
	emit(fmt.Sprintf("d64 serve %s %s %d %d %s %s %s", client, flags7(r, internal, rd, cd, wx, isWire), qclass, qtype, qf, down, ar))
	n++
	// follow up: the PTR query for the embedding of the first A record
	if r.Chance(1, 3) {
		for _, t := range parseAResp(ar).ans {
			if v4, ok := v4of(t.ip); t.kind == '4' && ok {
				p := vlib.Pick(r, g.o.prefixes)
				e := rfcEmbed(p, v4)
				name := arpaName(e)
				if r.Chance(1, 5) {
					name = strings.ToUpper(name)
				}
				chase := vlib.Pick(r, []string{"n;0;r/300/3", "n;0;r/300/3,r/300/3,o/60/3", "n;3;-", "n;0;-", "g;0;-", "q;0;-", "x;0;-", "a;0;-", "w;0;-", "n;2;r/300/3"})
				pf, pw := qnameField(r, name, true)
				emit(fmt.Sprintf("d64 serve %s %s %d 12 %s %s %s", client, flags7(r, internal, rd, cd, false, pw), qclass, pf,
					vlib.Pick(r, []string{"3;fftt;-;n;-;300/300", "-", "0;tftt;-;n;-;60/60"}), chase))
				n++
				break
			}
		}
	}
	return n
}

func genPTR(r *vlib.R, g *genCfg, emit func(string)) int {
	var name string
	switch r.Intn(6) {
	case 0:
		name = genArpaMalformed(r)
	case 1:
		name = arpaName([16]byte(r.Bytes(16)))
	default:
		p := vlib.Pick(r, g.o.prefixes)
		if r.Chance(1, 6) {
			p = netip.PrefixFrom(netip.AddrFrom16([16]byte(maskedIP(genPrefixIP(r), 64))), 64)
		}
		e := rfcEmbed(p, [4]byte(genV4(r)))
		if r.Chance(1, 4) {
			e[vlib.Pick(r, []int{8, 15, 13, 12, 9})] ^= byte(1 << uint(r.Intn(8)))
		}
		name = arpaName(e)
		if r.Chance(1, 6) {
			name = breakSeparator(r, name)
		}
	}
	client := genClient(r, g, !r.Chance(1, 8))
	pf, pw := qnameField(r, name, true)
	emit(fmt.Sprintf("d64 serve %s %s %d 12 %s %s %s", client, flags7(r, r.Chance(1, 16), !r.Chance(1, 12), r.Chance(1, 12), false, pw),
		vlib.Pick(r, []int{1, 1, 1, 1, 1, 1, 3}), pf, vlib.Pick(r, []string{"3;fftt;-;n;-;300/300", "-"}),
		vlib.Pick(r, []string{"n;0;r/300/3", "n;0;-", "g;0;-", "q;0;-", "n;3;-"})))
	return 1
}

func gen(r *vlib.R, n int, tier string, emit func(string)) {
	// vlib.NewR(seed) starts at seed*gamma+c and every draw adds gamma, so the
	// stream of seed k+1 is the stream of seed k shifted by one draw. Re-key
	// from the first (mixed) output so that different seeds are unrelated.
	r = vlib.NewR(r.U64() ^ 0xC20C20)
	// fixed block: every legal length x boundary IPv4 x representative prefixes
	fixedP := []string{"20010db8012203440000000000000000", "0064ff9b000000000000000000000000", "ffffffffffffffff00ffffffffffffff", "00000000000000000000ffff00000000"}
	fixedV := []string{"00000000", "ffffffff", "c0000221", "80000001", "00ffff07", "0000ffff"}
	for _, bits := range legalLens {
		for _, ph := range fixedP {
			for _, vh := range fixedV {
				n -= emitPfxCase(r, emit, mustHex(ph), bits, mustHex(vh))
			}
		}
	}
	for bits := 0; bits <= 128; bits++ {
		emit(fmt.Sprintf("pfx validate 6 %s %d", hx(genPrefixIP(r)), bits))
		n--
	}
	for _, bits := range []int{32, 40, 48, 56, 64, 96} {
		b := r.Bytes(16)
		b[8] = 1 + byte(r.Intn(255))
		emit(fmt.Sprintf("pfx validate 6 %s %d", hx(b), bits))
		emit(fmt.Sprintf("pfx validate 4 %s %d", hx(r.Bytes(4)), bits%33))
		n -= 2
	}
	for _, s := range arpaBad {
		emit("pfx arpa " + hexOfName(s))
		n--
	}
	for _, v := range []string{"00000000", "ffffffff", "c0000221", "0a010203"} {
		emit("pfx inaddr " + v)
		n--
	}
	for n > 0 {
		switch k := r.Intn(10); {
		case k < 2:
			bits := vlib.Pick(r, legalLens)
			if r.Chance(1, 8) {
				bits = r.Intn(129)
			}
			n -= emitPfxCase(r, emit, genPrefixIP(r), bits, genV4(r))
			if r.Chance(1, 2) {
				emit("pfx arpa " + hexOfName(genArpaMalformed(r)))
				n--
			}
			if r.Chance(1, 4) {
				emit("pfx inaddr " + hx(r.Bytes(4)))
				n--
			}
		default:
			g := genConfig(r)
			emit(g.line())
			n--
			for i, q := 0, 6+r.Intn(10); i < q; i++ {
				if r.Chance(1, 6) {
					n -= genPTR(r, g, emit)
				} else {
					n -= genServe(r, g, emit)
				}
			}
		}
	}
}

// ---------------------------------------------------------------- facts

func facts() map[string]any {
	var legal []int
	for bits := 0; bits <= 128; bits++ {
		if dns64.VerifValidatePrefix(&net.IPNet{IP: make(net.IP, 16), Mask: net.CIDRMask(bits, 128)}) == nil {
			legal = append(legal, bits)
		}
	}
	servfail := func(code uint16, rcode int) *dns.Msg {
		m := new(dns.Msg)
		m.SetQuestion("x.example.", dns.TypeAAAA)
		m.Response = true
		m.Rcode = rcode
		m.SetEdns0(1232, true)
		m.IsEdns0().Option = append(m.IsEdns0().Option, &dns.EDNS0_EDE{InfoCode: code})
		return m
	}
	dnssec, cached := []int{}, []int{}
	dnssecNonServfail := false
	for c := 0; c <= 65535; c++ {
		if dns64.VerifIsDNSSECFailure(servfail(uint16(c), dns.RcodeServerFailure)) {
			dnssec = append(dnssec, c)
		}
		if dns64.VerifIsCachedFailure(context.Background(), servfail(uint16(c), dns.RcodeServerFailure)) {
			cached = append(cached, c)
		}
		if c < 50 && dns64.VerifIsDNSSECFailure(servfail(uint16(c), dns.RcodeSuccess)) {
			dnssecNonServfail = true
		}
	}
	layouts := map[string]any{}
	marker := make(net.IP, 16)
	for i := range marker {
		marker[i] = byte(100 + i)
	}
	for _, bits := range legalLens {
		out := dns64.VerifEmbedIPv4(&net.IPNet{IP: marker, Mask: net.CIDRMask(bits, 128)}, net.IP{201, 202, 203, 204})
		l := make([]int, len(out))
		for i, b := range out {
			l[i] = int(b)
		}
		layouts[fmt.Sprintf("layout_%d", bits)] = l
	}
	nets := func(ns []*net.IPNet) [][]int {
		var out [][]int
		for _, n := range ns {
			row := []int{}
			for _, b := range n.IP {
				row = append(row, int(b))
			}
			ones, _ := n.Mask.Size()
			out = append(out, append(row, ones))
		}
		return out
	}
	w := dns64.VerifWellKnownPrefix()
	wb, _ := w.Mask.Size()
	wip := []int{}
	for _, b := range w.IP.To16() {
		wip = append(wip, int(b))
	}
	byte8 := make(net.IP, 16)
	byte8[8] = 1
	d := dns64.New(&config.Config{DNS64: config.DNS64Config{Enabled: true}})
	var h middleware.Handler = d
	co, ok := h.(middleware.ClientOnly)
	// how the library renders each single label byte in presentation form
	rendering := [][]int{}
	for b := 0; b < 256; b++ {
		name, _, err := dns.UnpackDomainName([]byte{1, byte(b), 0}, 0)
		row := []int{}
		if err == nil {
			for _, c := range []byte(strings.TrimSuffix(name, ".")) {
				row = append(row, int(c))
			}
		}
		rendering = append(rendering, row)
	}
	// the request-local provenance kinds: attempt limit, deadline, cancellation, failure-probe
	// limit, local load shed, max recursion, recursion work limit
	kinds := []error{
		&middleware.ResolutionAttemptLimitError{Endpoint: "192.0.2.53:53", Transport: "udp"}, context.DeadlineExceeded, context.Canceled,
		middleware.ErrFailureProbeLimit, fmt.Errorf("shed: %w", middleware.ErrLocalLoadShed), middleware.ErrMaxRecursion,
		&middleware.RecursionWorkLimitError{Kind: middleware.RecursionWorkInternalQuery, Limit: 1},
	}
	marked := []bool{}
	for _, e := range kinds {
		gctx, _ := middleware.EnsureResolutionAttemptGuard(context.Background())
		m := new(dns.Msg)
		middleware.MarkRequestLocalFailureResponse(gctx, m, e)
		marked = append(marked, middleware.RequestLocalFailureForResponse(gctx, m) != nil)
	}
	f := map[string]any{
		"request_local_kinds_marked": marked,
		"label_byte_rendering":       rendering,
		"legal_prefix_bits":          legal,
		"dnssec_ede_codes":           dnssec,
		"cached_failure_ede_codes":   cached,
		"dnssec_ede_on_non_servfail": dnssecNonServfail,
		"no_soa_ttl_ceiling":         int(dns64.VerifNoSOATTLCeiling()),
		"ptr_synth_ttl":              int(dns64.VerifPtrSynthTTL()),
		"wkp_ip":                     wip,
		"wkp_bits":                   wb,
		"default_exclude_a":          nets(dns64.VerifDefaultExcludeAv4()),
		"default_exclude_aaaa":       nets(dns64.VerifDefaultExcludeAAAA()),
		"byte8_rejected_96":          dns64.VerifValidatePrefix(&net.IPNet{IP: byte8, Mask: net.CIDRMask(96, 128)}) != nil,
		"clientonly_dns64":           ok && co.ClientOnly(),
	}
	for k, v := range layouts {
		f[k] = v
	}
	return f
}

func main() { vlib.Main(&vlib.Driver{Facts: facts, Exec: exec, Gen: gen}) }
