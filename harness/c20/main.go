//go:build verif

// Correspondence driver for C20 (DNS64 synthesises only RFC 6052 addresses,
// only when allowed, never with AD).
//
// Op lines (see notes/C20.md):
//
//	pfx validate <6|4> <iphex> <bits>
//	pfx embed <ip32hex> <bits> <v4hex>
//	pfx extract <ip32hex> <bits> <addr32hex>
//	pfx arpa <namehex>
//	pfx inaddr <v4hex>
//	d64 new <prefixes> <clients> <zones> <xa> <x6>
//	d64 serve <client> <flags4> <qclass> <qtype> <qnamehex> <down> <aresp>
package main

import (
	"context"
	"errors"
	"fmt"
	"net"
	"net/netip"
	"strconv"
	"strings"
	"time"

	"github.com/miekg/dns"
	"github.com/semihalev/sdns/config"
	"github.com/semihalev/sdns/internal/mock"
	"github.com/semihalev/sdns/internal/verif/vlib"
	"github.com/semihalev/sdns/middleware"
	"github.com/semihalev/sdns/middleware/dns64"
)

// ---------------------------------------------------------------- op syntax

var aliases = []string{"", "a1.alias.test.", "a2.alias.test.", "a3.alias.test.", "a4.alias.test.",
	"a5.alias.test.", "a6.alias.test.", "a7.alias.test.", "a8.alias.test.", "a9.alias.test.", "",
	// 11..19: the same names in the letter case a zone file might store (DNS names compare case-insensitively)
	"A1.Alias.TEST.", "a2.ALIAS.test.", "A3.alias.Test.", "a4.Alias.test.", "A5.ALIAS.TEST.", "a6.alias.TEST.", "A7.Alias.Test.", "a8.ALIAS.Test.", "a9.aliaS.tesT."}

type ent struct {
	kind byte // 'b' unparsable text, '4', '6'
	ip   []byte
	bits int
}

func parseEnt(s string) ent {
	if s == "bad" {
		return ent{kind: 'b'}
	}
	fam, rest, _ := strings.Cut(s, ":")
	h, b, _ := strings.Cut(rest, "/")
	return ent{kind: fam[0], ip: vlib.UnHex(h), bits: vlib.Atoi(b)}
}

func parseEnts(s string) []ent {
	if s == "-" {
		return []ent{}
	}
	var out []ent
	for _, f := range strings.Split(s, ",") {
		out = append(out, parseEnt(f))
	}
	return out
}

func (e ent) addr() netip.Addr {
	if e.kind == '4' {
		return netip.AddrFrom4([4]byte(e.ip))
	}
	return netip.AddrFrom16([16]byte(e.ip))
}

// text is the CIDR string placed in the configuration.
func (e ent) text() string {
	if e.kind == 'b' {
		return "not-a-cidr"
	}
	return " " + e.addr().String() + "/" + strconv.Itoa(e.bits) + " "
}

func texts(es []ent) []string {
	out := make([]string, 0, len(es))
	for _, e := range es {
		out = append(out, e.text())
	}
	return out
}

type rrTok struct {
	kind          byte
	ttl           uint32
	owner, target string
	ip            []byte
}

func parseRRs(s string) []rrTok {
	if s == "-" {
		return nil
	}
	var out []rrTok
	for _, t := range strings.Split(s, ",") {
		if t == "O" {
			out = append(out, rrTok{kind: 'O'})
			continue
		}
		f := strings.Split(t, "/")
		r := rrTok{kind: f[0][0], ttl: uint32(vlib.AtoU64(f[1])), owner: f[2]}
		switch r.kind {
		case 'c', 'd', 's':
			r.target = f[3]
		case '4', '6':
			r.ip = vlib.UnHex(f[3])
		}
		out = append(out, r)
	}
	return out
}

type downT struct {
	rcode             int
	ad, tc, opt, hasQ bool
	edes              []uint16
	mark              byte
	ans               []rrTok
	soas              [][2]uint32
	extra             []rrTok
}

func parseDown(s string) *downT {
	if s == "-" {
		return nil
	}
	f := strings.Split(s, ";")
	d := &downT{rcode: vlib.Atoi(f[0]), ad: f[1][0] == 't', tc: f[1][1] == 't', opt: f[1][2] == 't', hasQ: f[1][3] == 't', mark: f[3][0]}
	if f[2] != "-" && d.opt {
		for _, c := range strings.Split(f[2], ",") {
			d.edes = append(d.edes, uint16(vlib.Atoi(c)))
		}
	}
	d.ans = parseRRs(f[4])
	if f[5] != "-" {
		for _, t := range strings.Split(f[5], ",") {
			a, b, _ := strings.Cut(t, "/")
			d.soas = append(d.soas, [2]uint32{uint32(vlib.AtoU64(a)), uint32(vlib.AtoU64(b))})
		}
	}
	if len(f) > 6 {
		d.extra = parseRRs(f[6])
	}
	return d
}

type arespT struct {
	err       byte
	rcode     int
	ans       []rrTok
	ns, extra []rrTok
}

func parseAResp(s string) *arespT {
	f := strings.Split(s, ";")
	a := &arespT{err: f[0][0], rcode: vlib.Atoi(f[1]), ans: parseRRs(f[2])}
	if len(f) > 4 {
		a.ns, a.extra = parseRRs(f[3]), parseRRs(f[4])
	}
	return a
}

func nameOfHex(s string) string {
	if s == "e" {
		return ""
	}
	return string(vlib.UnHex(s))
}

func hexOfName(s string) string {
	if s == "" {
		return "e"
	}
	return vlib.Hex([]byte(s))
}

// ---------------------------------------------------------------- message building

const soaOwner = "z.soa.test."

func tokName(tok, qname string) string {
	if tok == "0" {
		return qname
	}
	if tok == "z" {
		return soaOwner
	}
	if strings.HasPrefix(tok, "x:") {
		return tok[2:]
	}
	return aliases[vlib.Atoi(tok)]
}

func nameTok(name, qname string) string {
	if name == qname {
		return "0"
	}
	if name == soaOwner {
		return "z"
	}
	for i := 1; i < len(aliases); i++ {
		if aliases[i] != "" && aliases[i] == name {
			return strconv.Itoa(i)
		}
	}
	return "x:" + name
}

func buildRR(t rrTok, qname string) dns.RR {
	if t.kind == 'O' {
		o := &dns.OPT{Hdr: dns.RR_Header{Name: ".", Rrtype: dns.TypeOPT}}
		o.SetUDPSize(512)
		return o
	}
	h := dns.RR_Header{Name: tokName(t.owner, qname), Class: dns.ClassINET, Ttl: t.ttl}
	switch t.kind {
	case 'c':
		h.Rrtype = dns.TypeCNAME
		return &dns.CNAME{Hdr: h, Target: tokName(t.target, qname)}
	case 'd':
		h.Rrtype = dns.TypeDNAME
		return &dns.DNAME{Hdr: h, Target: tokName(t.target, qname)}
	case '4':
		h.Rrtype = dns.TypeA
		return &dns.A{Hdr: h, A: net.IP(append([]byte(nil), t.ip...))}
	case '6':
		h.Rrtype = dns.TypeAAAA
		return &dns.AAAA{Hdr: h, AAAA: net.IP(append([]byte(nil), t.ip...))}
	case 'r':
		h.Rrtype = dns.TypePTR
		return &dns.PTR{Hdr: h, Ptr: "host.example."}
	case 's':
		h.Rrtype = dns.TypeSOA
		return &dns.SOA{Hdr: h, Ns: "ns.soa.test.", Mbox: "root.soa.test.", Serial: 1, Refresh: 7200, Retry: 3600, Expire: 86400, Minttl: uint32(vlib.AtoU64(t.target))}
	}
	h.Rrtype = dns.TypeTXT
	return &dns.TXT{Hdr: h, Txt: []string{"x"}}
}

func showRR(rr dns.RR, qname string) string {
	h := rr.Header()
	o := nameTok(h.Name, qname)
	switch v := rr.(type) {
	case *dns.CNAME:
		return fmt.Sprintf("c/%d/%s/%s", h.Ttl, o, nameTok(v.Target, qname))
	case *dns.DNAME:
		return fmt.Sprintf("d/%d/%s/%s", h.Ttl, o, nameTok(v.Target, qname))
	case *dns.A:
		return fmt.Sprintf("4/%d/%s/%s", h.Ttl, o, vlib.Hex(v.A))
	case *dns.AAAA:
		return fmt.Sprintf("6/%d/%s/%s", h.Ttl, o, vlib.Hex(v.AAAA))
	case *dns.PTR:
		return fmt.Sprintf("r/%d/%s", h.Ttl, o)
	case *dns.SOA:
		return fmt.Sprintf("s/%d/%s/%d", h.Ttl, o, v.Minttl)
	case *dns.OPT:
		return "O"
	}
	return fmt.Sprintf("o/%d/%s", h.Ttl, o)
}

func hasEDE(m *dns.Msg, code uint16) bool {
	for _, rr := range m.Extra {
		if opt, ok := rr.(*dns.OPT); ok {
			for _, o := range opt.Option {
				if e, ok := o.(*dns.EDNS0_EDE); ok && e.InfoCode == code {
					return true
				}
			}
		}
	}
	return false
}

// ---------------------------------------------------------------- RFC oracle pieces

// RFC 6052 section 2.2, the address format table: for each prefix length the
// 0-based byte positions of the four IPv4 octets; octet 8 ("u") and every
// byte after the last IPv4 octet (the suffix) are zero.
var rfc6052Pos = map[int][4]int{
	32: {4, 5, 6, 7}, 40: {5, 6, 7, 9}, 48: {6, 7, 9, 10}, 56: {7, 9, 10, 11}, 64: {9, 10, 11, 12}, 96: {12, 13, 14, 15},
}

func rfcLegal(bits int) bool { _, ok := rfc6052Pos[bits]; return ok }

// rfcPrefixOK: a legal length, and bits 64..71 of the prefix itself are zero
// (only a /96 reaches that far).
func rfcPrefixOK(p netip.Prefix) bool {
	if !p.IsValid() || !p.Addr().Is6() || p.Addr().Is4() || !rfcLegal(p.Bits()) {
		return false
	}
	a := p.Addr().As16()
	return !(p.Bits() == 96 && a[8] != 0)
}

func rfcEmbed(p netip.Prefix, v4 [4]byte) [16]byte {
	var out [16]byte
	pa := p.Masked().Addr().As16()
	for i := 0; i < p.Bits()/8; i++ {
		out[i] = pa[i]
	}
	pos := rfc6052Pos[p.Bits()]
	for k := 0; k < 4; k++ {
		out[pos[k]] = v4[k]
	}
	return out
}

// rfcExtract: the address is an RFC 6052 embedding under p iff re-embedding
// the octets found at the table positions reproduces it bit for bit.
func rfcExtract(p netip.Prefix, a [16]byte) ([4]byte, bool) {
	var v4 [4]byte
	pos := rfc6052Pos[p.Bits()]
	for k := 0; k < 4; k++ {
		v4[k] = a[pos[k]]
	}
	return v4, rfcEmbed(p, v4) == a
}

var wkp = netip.MustParsePrefix("64:ff9b::/96")

// ranges RFC 6052 section 3.1 forbids behind the well-known prefix
// (non-global IPv4 per RFC 5735 / IANA special-purpose registry).
var mustExclude = mkPrefixes("0.0.0.0/8", "10.0.0.0/8", "100.64.0.0/10", "127.0.0.0/8", "169.254.0.0/16", "172.16.0.0/12",
	"192.0.2.0/24", "192.168.0.0/16", "198.18.0.0/15", "198.51.100.0/24", "203.0.113.0/24", "240.0.0.0/4", "255.255.255.255/32")

// ranges an implementation may or may not treat as non-global by default.
var mayExclude = mkPrefixes("192.0.0.0/24", "192.88.99.0/24", "224.0.0.0/4")

func mkPrefixes(s ...string) []netip.Prefix {
	var out []netip.Prefix
	for _, x := range s {
		out = append(out, netip.MustParsePrefix(x))
	}
	return out
}

// inAny: plain per-prefix scan; an IPv4-mapped operand counts as IPv4 and a
// "::ffff:a.b.c.d/96+n" prefix as the IPv4 prefix a.b.c.d/n.
func inAny(ps []netip.Prefix, a netip.Addr) bool {
	a = a.Unmap()
	for _, p := range ps {
		if p.Addr().Is4In6() && p.Bits() >= 96 {
			p = netip.PrefixFrom(p.Addr().Unmap(), p.Bits()-96)
		}
		if p.Masked().Contains(a) {
			return true
		}
	}
	return false
}

// oracle view of the configuration, derived from the op line only.
type ocfg struct {
	prefixes []netip.Prefix
	clients  []netip.Prefix
	zones    []string
	exA      []netip.Prefix
	exADflt  bool
	exAAAA   []netip.Prefix
}

func entPrefix(e ent) (netip.Prefix, bool) {
	if e.kind == 'b' {
		return netip.Prefix{}, false
	}
	max := 128
	if e.kind == '4' {
		max = 32
	}
	if e.bits < 0 || e.bits > max {
		return netip.Prefix{}, false
	}
	return netip.PrefixFrom(e.addr(), e.bits).Masked(), true
}

func oracleCfg(ps, cs []ent, zs []string, xa, x6 []ent, xaNil, x6Nil bool) *ocfg {
	o := &ocfg{}
	for _, e := range ps {
		if p, ok := entPrefix(e); ok && e.kind == '6' && rfcPrefixOK(p) {
			o.prefixes = append(o.prefixes, p)
		}
	}
	if len(o.prefixes) == 0 {
		o.prefixes = []netip.Prefix{wkp}
	}
	for _, e := range cs {
		if p, ok := entPrefix(e); ok {
			o.clients = append(o.clients, p)
		}
	}
	for _, z := range zs {
		z = strings.ToLower(strings.TrimSpace(z))
		if z == "" {
			continue
		}
		o.zones = append(o.zones, strings.TrimSuffix(z, "."))
	}
	if xaNil {
		o.exADflt = true
	} else {
		for _, e := range xa {
			if p, ok := entPrefix(e); ok && e.kind == '4' {
				o.exA = append(o.exA, p)
			}
		}
	}
	if x6Nil {
		o.exAAAA = []netip.Prefix{netip.MustParsePrefix("::ffff:0:0/96")}
	} else {
		for _, e := range x6 {
			if p, ok := entPrefix(e); ok && e.kind == '6' {
				o.exAAAA = append(o.exAAAA, p)
			}
		}
	}
	return o
}

// mustSkip / maySkip: is v4 in an excluded range for prefix p.
func (o *ocfg) mustSkip(p netip.Prefix, v4 netip.Addr) bool {
	if p != wkp {
		return false
	}
	if o.exADflt {
		return inAny(mustExclude, v4)
	}
	return inAny(o.exA, v4)
}

func (o *ocfg) maySkip(p netip.Prefix, v4 netip.Addr) bool {
	return o.mustSkip(p, v4) || (p == wkp && o.exADflt && inAny(mayExclude, v4))
}

// zoneExcluded: label-wise comparison from the right.
func (o *ocfg) zoneExcluded(qname string) bool {
	// textual judgement (used for presentation-text query names and to recognise the
	// allowed over-exclusion by a dot inside a label): the zone's labels rendered in
	// presentation form, matched as a suffix at a dot of the rendered query name
	q := strings.ToLower(qname)
	for _, z := range o.zones {
		t := renderLabels(zoneTextLabels(z)) // the root zone "." is stored as "" and renders "."
		if q == t || strings.HasSuffix(q, "."+t) {
			return true
		}
	}
	return false
}

// renderLabels writes labels in presentation form: a backslash before special
// characters, \DDD for bytes outside the printable range, a dot after each label.
func renderLabels(ls []string) string {
	var sb strings.Builder
	for _, l := range ls {
		for i := 0; i < len(l); i++ {
			c := l[i]
			switch {
			case strings.IndexByte(".\\()\";@ '", c) >= 0:
				sb.WriteByte('\\')
				sb.WriteByte(c)
			case c < ' ' || c > '~':
				fmt.Fprintf(&sb, "\\%03d", c)
			default:
				sb.WriteByte(c)
			}
		}
		sb.WriteByte('.')
	}
	return strings.ToLower(sb.String())
}

// zoneExcludedLabels: the same judgement on the wire labels of the queried
// name when the op carries them (a dot inside a label is not a boundary).
func (o *ocfg) zoneExcludedLabels(qname string, qlabels [][]byte) bool {
	if qlabels == nil {
		// presentation-text query name: read it the way a zone text is read
		for _, l := range zoneTextLabels(strings.TrimSuffix(qname, ".")) {
			qlabels = append(qlabels, []byte(l))
		}
	}
	for _, z := range o.zones {
		zl := zoneTextLabels(z)
		if z == "" || len(zl) > len(qlabels) {
			continue
		}
		ok := true
		for i := 1; i <= len(zl); i++ {
			if asciiLower(zl[len(zl)-i]) != asciiLower(string(qlabels[len(qlabels)-i])) {
				ok = false
				break
			}
		}
		if ok {
			return true
		}
	}
	return false
}

// zoneTextLabels reads a zone written in presentation format (RFC 1035 section
// 5.1): labels separated by unescaped dots, "\X" a literal character, "\DDD"
// the byte with that decimal value.
func zoneTextLabels(z string) []string {
	var out []string
	var cur []byte
	for i := 0; i < len(z); i++ {
		switch {
		case z[i] == '\\' && i+3 < len(z) && isDigit(z[i+1]) && isDigit(z[i+2]) && isDigit(z[i+3]):
			cur = append(cur, (z[i+1]-'0')*100+(z[i+2]-'0')*10+(z[i+3]-'0'))
			i += 3
		case z[i] == '\\' && i+1 < len(z):
			cur = append(cur, z[i+1])
			i++
		case z[i] == '.':
			out = append(out, string(cur))
			cur = nil
		default:
			cur = append(cur, z[i])
		}
	}
	return append(out, string(cur))
}

func isDigit(b byte) bool { return b >= '0' && b <= '9' }

// asciiLower folds A-Z only (label bytes are not text: no UTF-8 decoding).
func asciiLower(s string) string {
	b := []byte(s)
	for i, c := range b {
		if c >= 'A' && c <= 'Z' {
			b[i] = c + 32
		}
	}
	return string(b)
}

// mustSynthesise: every gate of the property statement is open, the AAAA
// reply is one DNS64 does not pass through, and the error-free NOERROR A
// response ends (names compared case-insensitively, as DNS names are) in an A
// RRset with at least one address that is not excluded under some prefix.
func mustSynthesise(client netip.Addr, internal, rd, cd bool, qclass, qtype uint16, qname string, qlabels [][]byte,
	down *downT, ar *arespT) bool {
	o := curO
	if qclass != dns.ClassINET || internal || !rd || cd || qtype != dns.TypeAAAA {
		return false
	}
	// a dot inside a label next to a zone boundary is excluded by the textual match
	// (over-exclusion, allowed): demand nothing there
	if !(len(o.clients) == 0 || inAny(o.clients, client)) || o.zoneExcludedLabels(qname, qlabels) || o.zoneExcluded(qname) {
		return false
	}
	if down == nil || down.tc || !down.hasQ || down.rcode == dns.RcodeNameError || down.mark != 'n' {
		return false
	}
	if down.rcode == dns.RcodeServerFailure && down.opt {
		for _, c := range down.edes {
			if rfc8914DNSSEC[c] || c == 13 {
				return false
			}
		}
	}
	if down.rcode == dns.RcodeSuccess {
		for _, t := range down.ans {
			if t.kind == '6' {
				if a, ok := netip.AddrFromSlice(t.ip); ok && !inAny(o.exAAAA, a) {
					return false
				}
			}
		}
	}
	if ar.err != 'n' || ar.rcode != 0 {
		return false
	}
	terminal := qname
	for hops := 0; hops < 12; hops++ {
		moved := false
		for _, t := range ar.ans {
			if t.kind == 'c' && strings.EqualFold(tokName(t.owner, qname), terminal) {
				terminal = tokName(t.target, qname)
				moved = true
				break
			}
		}
		if !moved {
			break
		}
	}
	usable := false
	for _, t := range ar.ans {
		if t.kind != '4' {
			continue
		}
		v, ok := v4of(t.ip)
		if !ok {
			continue
		}
		if !strings.EqualFold(tokName(t.owner, qname), terminal) {
			return false // not a well-formed answer: the property says nothing
		}
		for _, p := range o.prefixes {
			if !o.maySkip(p, netip.AddrFrom4(v)) {
				usable = true
			}
		}
	}
	return usable
}

// v4of: the IPv4 address an A record's rdata denotes.
func v4of(ip []byte) ([4]byte, bool) {
	switch len(ip) {
	case 4:
		return [4]byte(ip), true
	case 16:
		if a := netip.AddrFrom16([16]byte(ip)); a.Is4In6() {
			return a.Unmap().As4(), true
		}
	}
	return [4]byte{}, false
}

// wireLabels splits an uncompressed wire name into its labels.
func wireLabels(wn []byte) [][]byte {
	out := [][]byte{}
	for i := 0; i < len(wn) && wn[i] != 0; i += 1 + int(wn[i]) {
		out = append(out, wn[i+1:i+1+int(wn[i])])
	}
	return out
}

// buildQuery assembles a query packet: header, question(s), one root OPT (DO set).
func buildQuery(wn []byte, qtype, qclass uint16, rd, cd, twoQ, ad bool) []byte {
	flags := uint16(0)
	if ad {
		flags |= 1 << 5
	}
	if rd {
		flags |= 1 << 8
	}
	if cd {
		flags |= 1 << 4
	}
	qd := uint16(1)
	if twoQ {
		qd = 2
	}
	b := []byte{0x10, 0x92, byte(flags >> 8), byte(flags), 0, byte(qd), 0, 0, 0, 0, 0, 1}
	b = append(b, wn...)
	b = append(b, byte(qtype>>8), byte(qtype), byte(qclass>>8), byte(qclass))
	if twoQ {
		b = append(b, 6, 's', 'e', 'c', 'o', 'n', 'd', 0, 0, 1, 0, 1)
	}
	b = append(b, 0, 0, 41, 0x10, 0x00, 0, 0, 0x80, 0, 0, 0)
	return b
}

// RFC 8914 info codes that report a DNSSEC validation failure.
var rfc8914DNSSEC = map[uint16]bool{1: true, 2: true, 5: true, 6: true, 7: true, 8: true, 9: true, 10: true, 11: true, 12: true, 27: true}

// oracleArpa: independent decoding of an ip6.arpa name.
func oracleArpa(name string) ([16]byte, bool) {
	var out [16]byte
	labels := strings.Split(strings.TrimSuffix(strings.ToLower(name), "."), ".")
	if len(labels) != 34 || labels[32] != "ip6" || labels[33] != "arpa" {
		return out, false
	}
	for i := 0; i < 32; i++ {
		if len(labels[i]) != 1 {
			return out, false
		}
		v, err := strconv.ParseUint(labels[i], 16, 8)
		if err != nil {
			return out, false
		}
		// label i is nibble 31-i, counted from the most significant one
		n := 31 - i
		if n%2 == 0 {
			out[n/2] += byte(v) * 16
		} else {
			out[n/2] += byte(v)
		}
	}
	return out, true
}

func arpaName(a [16]byte) string {
	var sb strings.Builder
	for i := 15; i >= 0; i-- {
		fmt.Fprintf(&sb, "%x.%x.", a[i]&0xf, a[i]>>4)
	}
	return sb.String() + "ip6.arpa."
}

func inAddrName(v [4]byte) string {
	return fmt.Sprintf("%d.%d.%d.%d.in-addr.arpa.", v[3], v[2], v[1], v[0])
}

// ---------------------------------------------------------------- state

var (
	cur  *dns64.DNS64
	curO *ocfg
)

type stubQ struct {
	a        *arespT
	qname    string
	calls    int
	lastType uint16
	lastName string
	lastCD   bool
	lastRD   bool
}

func (s *stubQ) Query(ctx context.Context, req *dns.Msg) (*dns.Msg, error) {
	s.calls++
	s.lastType = req.Question[0].Qtype
	s.lastName = req.Question[0].Name
	s.lastCD = req.CheckingDisabled
	s.lastRD = req.RecursionDesired
	switch s.a.err {
	case 'g':
		return nil, errors.New("upstream exploded")
	case 'a':
		return nil, &middleware.ResolutionAttemptLimitError{Question: req.Question[0], Endpoint: "192.0.2.53:53", Transport: "udp"}
	case 'w':
		return nil, &middleware.RecursionWorkLimitError{Kind: middleware.RecursionWorkInternalQuery, Limit: 1}
	case 'x':
		return nil, nil
	}
	m := new(dns.Msg)
	m.SetReply(req)
	m.Rcode = s.a.rcode
	m.RecursionAvailable = true
	m.AuthenticatedData = true // a validated A answer: its AD must never reach the AAAA client
	for _, t := range s.a.ans {
		m.Answer = append(m.Answer, buildRR(t, s.qname))
	}
	for _, t := range s.a.ns {
		m.Ns = append(m.Ns, buildRR(t, s.qname))
	}
	for _, t := range s.a.extra {
		m.Extra = append(m.Extra, buildRR(t, s.qname))
	}
	return m, nil
}

func fail(sig, detail string) string { return "FAIL sig=" + sig + " " + detail }

// ---------------------------------------------------------------- exec

func exec(op string) vlib.Res {
	f := strings.Fields(op)
	if len(f) < 2 {
		return vlib.Res{Impl: "bad-op"}
	}
	switch f[0] + " " + f[1] {
	case "pfx validate":
		return execValidate(f)
	case "pfx embed":
		return execEmbed(f)
	case "pfx extract":
		return execExtract(f)
	case "pfx arpa":
		return execArpa(f)
	case "pfx inaddr":
		v := vlib.UnHex(f[2])
		got := dns64.VerifInAddrArpa(net.IP(v))
		or := "ok"
		if got != inAddrName([4]byte(v)) {
			or = fail("pfx/inaddr/wrong-name", got)
		}
		return vlib.Res{Impl: got, Oracle: or}
	case "d64 new":
		return execNew(f)
	case "d64 serve":
		return execServe(f)
	}
	return vlib.Res{Impl: "bad-op"}
}

func mkNet(fam string, ip []byte, bits int) *net.IPNet {
	if fam == "4" {
		return &net.IPNet{IP: net.IP(ip), Mask: net.CIDRMask(bits, 32)}
	}
	return &net.IPNet{IP: net.IP(ip), Mask: net.CIDRMask(bits, 128)}
}

func execValidate(f []string) vlib.Res {
	ip, bits := vlib.UnHex(f[3]), vlib.Atoi(f[4])
	err := dns64.VerifValidatePrefix(mkNet(f[2], ip, bits))
	got := "ok"
	if err != nil {
		switch e := err.Error(); {
		case strings.Contains(e, "is IPv4"):
			got = "v4"
		case strings.Contains(e, "prefix length"):
			got = "len"
		case strings.Contains(e, "byte 8"):
			got = "byte8"
		default:
			got = "err"
		}
	}
	// property: exactly the six RFC 6052 lengths are legal; a prefix reaching
	// into bits 64..71 must have them zero.
	want := f[2] == "6" && rfcLegal(bits) && !(bits == 96 && ip[8] != 0)
	or := "ok"
	if (got == "ok") != want {
		or = fail("pfx/validate/"+map[bool]string{true: "illegal-prefix-accepted", false: "legal-prefix-rejected"}[got == "ok"], fmt.Sprintf("bits=%d", bits))
	}
	tags := ""
	if f[2] == "6" && (rfcLegal(bits) || rfcLegal(bits+1) || rfcLegal(bits-1)) {
		tags = "nt"
	}
	return vlib.Res{Impl: got, Oracle: or, Tags: tags}
}

func execEmbed(f []string) vlib.Res {
	ip, bits, v4 := vlib.UnHex(f[2]), vlib.Atoi(f[3]), vlib.UnHex(f[4])
	got := dns64.VerifEmbedIPv4(mkNet("6", ip, bits), net.IP(v4))
	or, tags := "-", ""
	p := netip.PrefixFrom(netip.AddrFrom16([16]byte(ip)), bits)
	if rfcPrefixOK(p.Masked()) && !(bits == 96 && ip[8] != 0) {
		tags = "nt"
		or = "ok"
		want := rfcEmbed(p, [4]byte(v4))
		switch {
		case len(got) != 16:
			or = fail("pfx/embed/not-16-bytes", "")
		case got[8] != 0:
			or = fail("pfx/embed/reserved-octet-nonzero", vlib.Hex(got))
		case [16]byte(got) != want:
			or = fail("pfx/embed/not-rfc6052-layout", fmt.Sprintf("want=%x got=%x", want, []byte(got)))
		}
	}
	return vlib.Res{Impl: vlib.Hex(got), Oracle: or, Tags: tags}
}

func execExtract(f []string) vlib.Res {
	ip, bits, a := vlib.UnHex(f[2]), vlib.Atoi(f[3]), vlib.UnHex(f[4])
	got, ok := dns64.VerifExtractIPv4(mkNet("6", ip, bits), net.IP(a))
	impl := "none"
	if ok {
		impl = vlib.Hex(got)
	}
	or, tags := "-", ""
	p := netip.PrefixFrom(netip.AddrFrom16([16]byte(ip)), bits)
	if rfcPrefixOK(p.Masked()) && !(bits == 96 && ip[8] != 0) {
		tags = "nt"
		or = "ok"
		want, wok := rfcExtract(p, [16]byte(a))
		switch {
		case ok && !wok:
			or = fail("pfx/extract/non-conformant-address-accepted", impl)
		case !ok && wok:
			sig := "pfx/extract/embedding-not-reversible"
			if netip.AddrFrom16([16]byte(a)).Is4In6() {
				sig += "/ipv4-mapped-form"
			}
			or = fail(sig, fmt.Sprintf("want=%x", want))
		case ok && [4]byte(got) != want:
			or = fail("pfx/extract/wrong-ipv4", fmt.Sprintf("want=%x got=%s", want, impl))
		}
	}
	return vlib.Res{Impl: impl, Oracle: or, Tags: tags}
}

func execArpa(f []string) vlib.Res {
	name := nameOfHex(f[2])
	got, ok := dns64.VerifParseIP6ArpaName(name)
	impl := "none"
	if ok {
		impl = vlib.Hex(got)
	}
	want, wok := oracleArpa(name)
	or := "ok"
	switch {
	case ok != wok:
		or = fail("pfx/arpa/"+map[bool]string{true: "malformed-name-accepted", false: "wellformed-name-rejected"}[ok], name)
	case ok && [16]byte(got) != want:
		or = fail("pfx/arpa/wrong-address", fmt.Sprintf("want=%x got=%s", want, impl))
	}
	return vlib.Res{Impl: impl, Oracle: or, Tags: "nt"}
}

func execNew(f []string) vlib.Res {
	ps, cs := parseEnts(f[2]), parseEnts(f[3])
	var zs []string
	if f[4] != "-" {
		for _, z := range strings.Split(f[4], ",") {
			zs = append(zs, nameOfHex(z))
		}
	}
	cfg := &config.Config{}
	cfg.DNS64.Enabled = true
	cfg.DNS64.Prefixes = texts(ps)
	cfg.DNS64.ClientNetworks = texts(cs)
	cfg.DNS64.ExcludeZones = zs
	var xa, x6 []ent
	if f[5] != "nil" {
		xa = parseEnts(f[5])
		cfg.DNS64.ExcludeANetworks = texts(xa)
	}
	if f[6] != "nil" {
		x6 = parseEnts(f[6])
		cfg.DNS64.ExcludeAAAANetworks = texts(x6)
	}
	cur = dns64.New(cfg)
	curO = oracleCfg(ps, cs, zs, xa, x6, f[5] == "nil", f[6] == "nil")
	prefixes, nc, zones, na, n6 := cur.VerifCompiled()
	var pp, zz []string
	for _, p := range prefixes {
		b, _ := p.Net.Mask.Size()
		pp = append(pp, fmt.Sprintf("%s/%d/%s", vlib.Hex(p.Net.IP.To16()), b, map[bool]string{true: "w", false: "n"}[p.WellKnown]))
	}
	for _, z := range zones {
		zz = append(zz, hexOfName(z))
	}
	zt := "-"
	if len(zz) > 0 {
		zt = strings.Join(zz, ",")
	}
	// oracle: the compiled prefixes are exactly the RFC 6052-legal configured
	// ones (or the well-known prefix when there is none).
	or := "ok"
	if len(prefixes) != len(curO.prefixes) {
		or = fail("new/prefixes/count", fmt.Sprintf("want=%d got=%d", len(curO.prefixes), len(prefixes)))
	} else {
		for i, p := range prefixes {
			b, _ := p.Net.Mask.Size()
			a, _ := netip.AddrFromSlice(p.Net.IP.To16())
			if netip.PrefixFrom(a, b) != curO.prefixes[i] {
				or = fail("new/prefixes/differs", fmt.Sprintf("idx=%d", i))
			}
			if !rfcPrefixOK(netip.PrefixFrom(a, b)) {
				or = fail("new/prefixes/illegal-prefix-compiled", p.Net.String())
			}
		}
	}
	return vlib.Res{Impl: fmt.Sprintf("p=%s c=%d z=%s xa=%d x6=%d", strings.Join(pp, ","), nc, zt, na, n6), Oracle: or, Tags: "nt"}
}

func parseClient(s string) netip.Addr {
	fam, h, _ := strings.Cut(s, ":")
	b := vlib.UnHex(h)
	switch fam {
	case "4":
		return netip.AddrFrom4([4]byte(b))
	}
	return netip.AddrFrom16([16]byte(b))
}

func execServe(f []string) vlib.Res {
	client := parseClient(f[2])
	internal, rd, cd, wx := f[3][0] == 't', f[3][1] == 't', f[3][2] == 't', f[3][3] == 't'
	replay, wireBorn, twoQ, qad := false, false, false, false
	if len(f[3]) >= 8 {
		qad = f[3][7] == 't' // the client set AD in its query (RFC 6840 section 5.7)
	}
	if len(f[3]) >= 7 {
		replay, wireBorn, twoQ = f[3][4] == 't', f[3][5] == 't', f[3][6] == 't'
	}
	qclass, qtype := uint16(vlib.Atoi(f[4])), uint16(vlib.Atoi(f[5]))
	down := parseDown(f[7])
	ar := parseAResp(f[8])

	// The request. `w:<hex>` names are uncompressed wire names: the packet is
	// assembled byte by byte and enters either as a wire-born Request
	// (Chain.ResetWire, as the UDP/TCP/DoT engines do) or decoded through
	// dns.Msg.Unpack (as DoH/DoQ do). A bare hex name is presentation text
	// placed directly in a decoded message.
	var req *dns.Msg
	var raw []byte
	var qname string
	var qlabels [][]byte
	if strings.HasPrefix(f[6], "w:") {
		wn := vlib.UnHex(f[6][2:])
		qlabels = wireLabels(wn)
		if wireBorn {
			twoQ = false
			wx = false // a ledger handed over as a context value does not cross the detach boundary
		}
		raw = buildQuery(wn, qtype, qclass, rd, cd, twoQ, qad)
		req = new(dns.Msg)
		if err := req.Unpack(raw); err != nil {
			return vlib.Res{Impl: "bad-op", Oracle: "-"}
		}
		qname = req.Question[0].Name
		if wireBorn {
			req = nil
		}
	} else {
		wireBorn = false
		qname = nameOfHex(f[6])
		req = new(dns.Msg)
		req.Id = 4242
		req.Question = []dns.Question{{Name: qname, Qtype: qtype, Qclass: qclass}}
		if twoQ {
			req.Question = append(req.Question, dns.Question{Name: "second.example.", Qtype: dns.TypeA, Qclass: dns.ClassINET})
		}
		req.RecursionDesired = rd
		req.CheckingDisabled = cd
		req.AuthenticatedData = qad
		req.SetEdns0(4096, true)
	}

	sq := &stubQ{a: ar, qname: qname}
	if ar.err == 'q' {
		cur.SetQueryer(nil)
	} else {
		cur.SetQueryer(sq)
	}

	var downMsg *dns.Msg
	downstream := middleware.HandlerFunc(func(ctx context.Context, ch *middleware.Chain) {
		defer ch.Cancel()
		if down == nil {
			return
		}
		m := new(dns.Msg)
		m.SetReply(ch.Request.Msg())
		if !down.hasQ {
			m.Question = nil
		}
		m.Rcode = down.rcode
		m.AuthenticatedData = down.ad
		m.Truncated = down.tc
		m.RecursionAvailable = true
		for _, t := range down.ans {
			m.Answer = append(m.Answer, buildRR(t, qname))
		}
		for _, s := range down.soas {
			m.Ns = append(m.Ns, &dns.SOA{Hdr: dns.RR_Header{Name: soaOwner, Rrtype: dns.TypeSOA, Class: dns.ClassINET, Ttl: s[0]},
				Ns: "ns.example.org.", Mbox: "root.example.org.", Serial: 1, Refresh: 7200, Retry: 3600, Expire: 86400, Minttl: s[1]})
		}
		for _, t := range down.extra {
			m.Extra = append(m.Extra, buildRR(t, qname))
		}
		if down.opt {
			o := &dns.OPT{Hdr: dns.RR_Header{Name: ".", Rrtype: dns.TypeOPT}}
			o.SetUDPSize(1232)
			o.SetDo()
			for _, c := range down.edes {
				o.Option = append(o.Option, &dns.EDNS0_EDE{InfoCode: c, ExtraText: "x"})
			}
			m.Extra = append(m.Extra, o)
		}
		downMsg = m
		switch down.mark {
		case 'c':
			release := middleware.ResponseMetaFrom(ctx).MarkCachedFailureResponse(m)
			defer release()
		case 'a':
			// as the resolver does: the guard is established on the context this
			// handler runs on (for a wire-born request: the detached tree)
			ctx, _ = middleware.EnsureResolutionAttemptGuard(ctx)
			middleware.MarkRequestLocalFailureResponse(ctx, m, &middleware.ResolutionAttemptLimitError{Question: m.Question[0], Endpoint: "192.0.2.53:53", Transport: "udp"})
		case 'l', 'k', 'p', 's', 'm', 'r':
			// every other request-local provenance a lower layer may leave on a SERVFAIL
			ctx, _ = middleware.EnsureResolutionAttemptGuard(ctx)
			middleware.MarkRequestLocalFailureResponse(ctx, m, map[byte]error{
				'l': context.DeadlineExceeded, 'k': context.Canceled, 'p': middleware.ErrFailureProbeLimit,
				's': fmt.Errorf("shed: %w", middleware.ErrLocalLoadShed), 'm': middleware.ErrMaxRecursion,
				'r': &middleware.RecursionWorkLimitError{Kind: middleware.RecursionWorkInternalQuery, Limit: 1},
			}[down.mark])
		}
		_ = ch.Writer.WriteMsg(m)
	})

	// No request-tree state is established ahead of the chain: the server's job
	// context carries none, so for a wire-born request every provenance mark the
	// downstream leaves lives on the detached tree only.
	ctx := context.Background()
	if wx {
		ledger := middleware.NewRecursionWorkLedger(middleware.RecursionWorkPolicy{Mode: middleware.RecursionWorkEnforce, MaxOutboundQueries: 1, MaxInternalQueries: 0})
		_ = ledger.Debit(middleware.RecursionWorkInternalQuery)
		ctx = middleware.WithRecursionWork(ctx, ledger)
	}
	addr := netip.AddrPortFrom(client, 40000).String()
	if internal {
		addr = "127.0.0.255:0"
	}
	mw := mock.NewWriter("udp", addr)
	ch := middleware.NewChain([]middleware.Handler{cur, downstream})
	var wreq middleware.Request
	if wireBorn {
		if !wreq.ParseWire(raw, time.Now(), nil) {
			return vlib.Res{Impl: "bad-op", Oracle: fail("serve/wire/parsewire-refused-a-plain-query", "")}
		}
		ch.ResetWire(mw, &wreq)
	} else {
		ch.Reset(mw, req)
	}
	if replay {
		// the worker pass that finishes a query the inline reader handed off (server/strict.go)
		ch.SetReplay()
	}
	ch.Next(ctx)
	defer ch.Finish()

	if !mw.Written() {
		or := "ok"
		if sq.calls != 0 {
			or = fail("serve/no-reply-but-secondary-lookup", "")
		}
		return vlib.Res{Impl: "none", Oracle: or, Tags: "nt"}
	}
	reply := mw.Msg()
	same := reply == downMsg
	var ans []string
	for _, rr := range reply.Answer {
		ans = append(ans, showRR(rr, qname))
	}
	at := "-"
	if len(ans) > 0 {
		at = strings.Join(ans, ",")
	}
	aq := 0
	if sq.calls > 0 {
		aq = int(sq.lastType)
	}
	aqs := strconv.Itoa(aq)
	if sq.calls > 0 && sq.lastCD {
		aqs += "cd" // the model never asks with CD: a sub-query that skips validation shows as a difference
	}
	sect := func(rrs []dns.RR) string {
		var out []string
		for _, rr := range rrs {
			out = append(out, showRR(rr, qname))
		}
		if len(out) == 0 {
			return "-"
		}
		return strings.Join(out, ",")
	}
	impl := fmt.Sprintf("same=%s rc=%d ad=%s aq=%s ede4=%s ans=%s ns=%s ex=%s", vlib.B(same), reply.Rcode, vlib.B(reply.AuthenticatedData), aqs,
		vlib.B(hasEDE(reply, 4)), at, sect(reply.Ns), sect(reply.Extra))

	or := judgeServe(client, internal, rd, cd, qclass, qtype, qname, qlabels, down, ar, reply, same, sq)
	if or == "ok" && !twoQ && !(wx && down != nil && down.rcode == dns.RcodeServerFailure) &&
		mustSynthesise(client, internal, rd, cd, qclass, qtype, qname, qlabels, down, ar) {
		// "exactly the embedding of the target's A records": with every gate open and a
		// usable A RRset at the end of the alias chain, the reply must carry embeddings
		got := false
		for _, rr := range reply.Answer {
			if a, ok := rr.(*dns.AAAA); ok {
				for _, p := range curO.prefixes {
					if _, ok := rfcExtract(p, [16]byte(a.AAAA.To16())); ok {
						got = true
					}
				}
			}
		}
		if !got {
			or = fail("serve/addr/a-records-not-synthesised", "every gate open, A RRset present, no synthesised AAAA")
		}
	}
	if or == "ok" && sq.calls > 0 {
		// the secondary lookup stands in for a client that asked with CD=0 (a CD=1 client is
		// never served by DNS64): it must be a recursive, VALIDATED lookup, or an A RRset that
		// fails validation would be embedded instead of surfacing as the A-side SERVFAIL
		if sq.lastCD {
			or = fail("serve/secondary-lookup/checking-disabled", "sub-query sent with CD=1 for a CD=0 client")
		} else if !sq.lastRD {
			or = fail("serve/secondary-lookup/not-recursive", "")
		}
	}
	if twoQ && strings.Contains(or, "sig=ptr/roundtrip/") {
		or = "ok" // a request with two questions is not a PTR query the property speaks about
	}
	if or == "ok" {
		nopt := 0
		for _, rr := range reply.Extra {
			if _, ok := rr.(*dns.OPT); ok {
				nopt++
			}
		}
		if nopt > 1 {
			or = fail("serve/sections/more-than-one-opt", fmt.Sprint(nopt))
		}
	}
	tags := "nt"
	if replay {
		tags += ",replay"
	}
	if wireBorn {
		tags += ",wire"
	}
	if qad {
		tags += ",qad"
	}
	if down != nil && strings.ContainsRune("kpsmr", rune(down.mark)) {
		tags += ",localmark"
	}
	if qlabels != nil {
		tags += ",wirename"
	}
	for _, t := range ar.ans {
		if t.kind == '4' && len(t.owner) == 2 {
			tags += ",casealias"
			break
		}
	}
	if len(curO.exAAAA) == 0 {
		tags += ",x6empty"
	}
	for _, z := range curO.zones {
		if strings.Contains(z, "\\") {
			tags += ",esczone"
			break
		}
	}
	return vlib.Res{Impl: impl, Oracle: or, Tags: tags}
}

// judgeServe is the property oracle for one reply: it re-derives everything
// from the op line (configuration entries, query flags, scripted downstream
// and A responses) and the property text; it never calls package dns64.
func judgeServe(client netip.Addr, internal, rd, cd bool, qclass, qtype uint16, qname string, qlabels [][]byte,
	down *downT, ar *arespT, reply *dns.Msg, same bool, sq *stubQ) string {
	o := curO
	eligible := len(o.clients) == 0 || inAny(o.clients, client)
	gates := []struct {
		name string
		open bool
	}{
		{"class-not-in", qclass == dns.ClassINET}, {"internal-subquery", !internal}, {"rd-clear", rd}, {"cd-set", !cd},
		{"client-not-eligible", eligible},
	}

	if sq.calls > 1 {
		return fail("serve/secondary-lookup/more-than-one", fmt.Sprint(sq.calls))
	}

	// ---- PTR side
	if qtype == dns.TypePTR {
		var cands [][4]byte
		if a16, ok := oracleArpa(qname); ok {
			for _, p := range o.prefixes {
				if v4, ok := rfcExtract(p, a16); ok && !o.maySkip(p, netip.AddrFrom4(v4)) {
					cands = append(cands, v4)
				}
			}
		}
		translated := !same && len(reply.Answer) > 0 && reply.Answer[0].Header().Rrtype == dns.TypeCNAME &&
			strings.HasSuffix(reply.Answer[0].(*dns.CNAME).Target, ".in-addr.arpa.")
		if translated {
			for _, g := range gates {
				if !g.open {
					return fail("ptr/gate/"+g.name, "translated although the gate is closed")
				}
			}
			tgt := reply.Answer[0].(*dns.CNAME).Target
			okT := false
			if a16, ok := oracleArpa(qname); ok {
				for _, p := range o.prefixes {
					if v4, ok := rfcExtract(p, a16); ok && inAddrName(v4) == tgt {
						okT = true
					}
				}
			}
			if !okT {
				return fail("ptr/target/not-the-embedded-ipv4", tgt)
			}
			if reply.Answer[0].Header().Name != qname {
				return fail("ptr/owner/not-queried-name", reply.Answer[0].Header().Name)
			}
			if reply.AuthenticatedData {
				return fail("ptr/ad/translated-reply-has-ad", "")
			}
			return "ok"
		}
		allOpen := true
		for _, g := range gates {
			allOpen = allOpen && g.open
		}
		if allOpen && len(cands) > 0 && ar.err != 'w' && ar.err != 'a' {
			return fail("ptr/roundtrip/embedded-address-not-translated", fmt.Sprintf("want %s", inAddrName(cands[0])))
		}
		return "ok"
	}

	// ---- AAAA side: which AAAA of the reply did the downstream not supply?
	native := map[string]bool{}
	if down != nil {
		for _, t := range down.ans {
			if t.kind == '6' {
				native[tokName(t.owner, qname)+"|"+string(t.ip)] = true
			}
		}
	}
	var synth []*dns.AAAA
	present := map[string]bool{}
	for _, rr := range reply.Answer {
		if a, ok := rr.(*dns.AAAA); ok {
			present[a.Hdr.Name+"|"+string(a.AAAA.To16())] = true
			if !native[a.Hdr.Name+"|"+string(a.AAAA.To16())] {
				synth = append(synth, a)
			}
		}
	}

	if len(synth) == 0 {
		// AAAA-filtered reply: a message of DNS64's making that lacks native AAAA of the downstream
		if !same && down != nil {
			removed := 0
			for k := range native {
				if !present[k] {
					removed++
				}
			}
			if removed > 0 && reply.AuthenticatedData {
				return fail("serve/ad/aaaa-filtered-reply-has-ad", fmt.Sprintf("removed=%d", removed))
			}
		}
		return "ok"
	}

	// synthesis happened: every gate of the property statement must be open
	gates = append(gates, struct {
		name string
		open bool
	}{"qtype-not-aaaa", qtype == dns.TypeAAAA}, struct {
		name string
		open bool
	}{"zone-excluded", !o.zoneExcludedLabels(qname, qlabels)})
	for _, g := range gates {
		if !g.open {
			return fail("serve/gate/"+g.name, "synthesised although the gate is closed")
		}
	}
	if down == nil {
		return fail("serve/over/no-downstream-reply", "")
	}
	if down.rcode == dns.RcodeNameError {
		return fail("serve/over/nxdomain", "")
	}
	if down.rcode == dns.RcodeServerFailure && down.opt {
		for _, c := range down.edes {
			if rfc8914DNSSEC[c] {
				return fail("serve/over/dnssec-validation-failure", fmt.Sprintf("ede=%d", c))
			}
		}
		for _, c := range down.edes {
			if c == 13 {
				return fail("serve/over/cached-failure-ede13", "")
			}
		}
	}
	if down.mark == 'c' {
		return fail("serve/over/cached-failure", "")
	}
	if down.mark != 'n' && down.mark != 'c' {
		return fail("serve/over/request-local-failure", string(down.mark))
	}
	if down.rcode == dns.RcodeSuccess {
		for _, t := range down.ans {
			if t.kind == '6' {
				if a, ok := netip.AddrFromSlice(t.ip); ok && !inAny(o.exAAAA, a) {
					return fail("serve/over/usable-native-aaaa", a.String())
				}
			}
		}
	}
	if ar.err != 'n' || ar.rcode != 0 {
		return fail("serve/addr/synthesis-without-a-records", "")
	}
	if sq.calls != 1 || sq.lastType != dns.TypeA || sq.lastName != qname {
		return fail("serve/secondary-lookup/not-a-for-qname", fmt.Sprintf("%d %d %s", sq.calls, sq.lastType, sq.lastName))
	}
	if reply.AuthenticatedData {
		return fail("serve/ad/synthesised-reply-has-ad", "")
	}
	if reply.Rcode != dns.RcodeSuccess {
		return fail("serve/rcode/synthesised-reply-not-noerror", fmt.Sprint(reply.Rcode))
	}

	// terminal name of the alias chain that starts at the queried name
	terminal := qname
	for hops := 0; hops < 12; hops++ {
		moved := false
		for _, t := range ar.ans {
			if t.kind == 'c' && strings.EqualFold(tokName(t.owner, qname), terminal) {
				terminal = tokName(t.target, qname)
				moved = true
				break
			}
		}
		if !moved {
			break
		}
	}
	wellFormed := true
	var as []rrTok
	for _, t := range ar.ans {
		if t.kind == '4' {
			// A rdata: 4 bytes, or the 16-byte ::ffff:a.b.c.d form the wire decoder
			// produces; any other 16 bytes are not an IPv4 address.
			v, ok := v4of(t.ip)
			if !ok {
				continue
			}
			t.ip = v[:]
			as = append(as, t)
			if !strings.EqualFold(tokName(t.owner, qname), terminal) {
				wellFormed = false
			}
		}
	}

	for _, s := range synth {
		a16 := [16]byte(s.AAAA.To16())
		matched, addrMatched, skipOnly := false, false, true
		var maxATTL uint32
		for _, p := range o.prefixes {
			for _, a := range as {
				if rfcEmbed(p, [4]byte(a.ip)) != a16 {
					continue
				}
				addrMatched = true
				if tokName(a.owner, qname) != s.Hdr.Name {
					continue
				}
				matched = true
				if !o.mustSkip(p, netip.AddrFrom4([4]byte(a.ip))) {
					skipOnly = false
				}
				if v, ok := rfcExtract(p, a16); !ok || v != [4]byte(a.ip) {
					return fail("serve/addr/not-reversible", s.AAAA.String())
				}
				if a.ttl > maxATTL {
					maxATTL = a.ttl
				}
			}
		}
		if !addrMatched {
			return fail("serve/addr/not-rfc6052-embedding-of-an-a-record", s.AAAA.String())
		}
		if !matched {
			return fail("serve/owner/not-the-owner-of-its-a-record", s.AAAA.String()+" owner "+s.Hdr.Name)
		}
		if skipOnly {
			return fail("serve/addr/excluded-ipv4-under-well-known-prefix", s.AAAA.String())
		}
		if a16[8] != 0 {
			return fail("serve/addr/reserved-octet-nonzero", s.AAAA.String())
		}
		if wellFormed && !strings.EqualFold(s.Hdr.Name, terminal) {
			return fail("serve/owner/not-the-chain-terminal", s.Hdr.Name+" want "+terminal)
		}
		if s.Hdr.Ttl > maxATTL {
			return fail("serve/ttl/exceeds-a-ttl", fmt.Sprintf("ttl=%d a=%d", s.Hdr.Ttl, maxATTL))
		}
		if len(down.soas) == 0 && s.Hdr.Ttl > 600 {
			// RFC 6147 section 5.1.7: without an SOA in the AAAA reply the bound is 600 s
			return fail("serve/ttl/exceeds-no-soa-ceiling", fmt.Sprintf("ttl=%d", s.Hdr.Ttl))
		}
		if len(down.soas) > 0 {
			// RFC 2308 section 5: negative TTL = min(SOA TTL, SOA MINIMUM)
			neg := down.soas[0][0]
			if down.soas[0][1] < neg {
				neg = down.soas[0][1]
			}
			if s.Hdr.Ttl > neg {
				sig := "serve/ttl/exceeds-negative-ttl"
				if down.soas[0][0] == 0 {
					sig += "/soa-ttl-zero"
				} else if down.soas[0][1] == 0 {
					sig += "/soa-minimum-zero"
				}
				return fail(sig, fmt.Sprintf("ttl=%d neg=%d", s.Hdr.Ttl, neg))
			}
		}
	}
	// every configured prefix x every A record is there unless excluded
	for _, p := range o.prefixes {
		for _, a := range as {
			if o.maySkip(p, netip.AddrFrom4([4]byte(a.ip))) {
				continue
			}
			e := rfcEmbed(p, [4]byte(a.ip))
			if !present[tokName(a.owner, qname)+"|"+string(e[:])] {
				return fail("serve/addr/missing-embedding", fmt.Sprintf("%x under %s", a.ip, p))
			}
		}
	}
	return "ok"
}
